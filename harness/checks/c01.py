"""C01 check: MC of the zone semantics on the synthetic zones + TV of every transition."""


def run(run):
    run.model_check("MC_Zones", required_actions=())
    run.drive([("rs", 16), ("py", 8)] if run.quick else [("rs", 16), ("py", 16)])
    return run
