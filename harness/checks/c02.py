"""C02 check: MC of the normalisation rule on the synthetic zones + TV of every gap and overlap."""


def run(run):
    run.model_check("MC_Zones")
    run.drive([("rs", 16), ("py", 8)] if run.quick else [("rs", 16), ("py", 16)])
    return run
