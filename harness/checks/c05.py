"""C05 check: MC of the zone semantics + TV of interval lengths around every transition"""


def run(run):
    run.model_check("MC_Zones")
    run.drive([("rs", 16), ("py", 8)] if run.quick else [("rs", 16), ("py", 16)])
    return run
