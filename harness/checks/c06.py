"""C06 check: MC_Diff (in which branches precise_diff's algorithm refines the decomposition predicate)
+ TV of interval components over the month/day product, zone pairs and random pairs, both back-ends."""


def run(run):
    run.model_check("MC_Zones")
    if run.quick:
        run.model_check("MC_Diff", env_={"PV_Y0": "2023", "PV_Y1": "2024"})
    else:
        run.model_check("MC_Diff", env_={"PV_Y0": "2019", "PV_Y1": "2028"}, heap="8g")
    run.drive([("rs", 16), ("py", 8)] if run.quick else [("rs", 16), ("py", 16)])
    return run
