"""C07 check: MC_IsoText (generator / recogniser agreement, renderers inverted by the recogniser) +
TV of parse() on generated forms, whole years of dates in six forms, and renderer round trips."""


def run(run):
    run.model_check("MC_IsoText")
    run.model_check("MC_Calendar", env_={"PV_Y0": "1990", "PV_Y1": "2030"})
    run.drive([("rs", 16), ("py", 16)])
    return run
