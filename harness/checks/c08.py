"""C08 check: MC_IsoText/MC_Calendar (the number and calendar functions tokens are built from) + TV of format() /
named formats / from_format() with the token table of FormatTokens.tla."""


def run(run):
    run.model_check("MC_Calendar", env_={"PV_Y0": "1999", "PV_Y1": "2025"})
    run.drive([("rs", 8), ("py", 8)])
    return run
