"""C10 check: MC_Duration (limb arithmetic laws) + TV of the recorded calls."""


def run(run):
    run.model_check("MC_Duration")
    run.model_check("MC_BigNat")          # arbitrary-precision products and rounding shifts (float factors)
    run.drive([("rs", 8), ("py", 8)])
    return run
