"""C11 check: TV of every standard-library accessor and operator against the spec (where modelled) and
against the native twin (same fields, zoneinfo tzinfo, same fold)."""


def run(run):
    run.model_check("MC_IsoText")
    run.drive([("rs", 16), ("py", 8)])
    return run
