"""C12 check: MC_Modifiers (the reference first/last instant satisfies the property's predicate on every
synthetic zone geometry) + TV of start_of/end_of on the days of every tz-database anomaly."""


def run(run):
    run.model_check("MC_Modifiers")
    run.drive([("rs", 16), ("py", 8)] if run.quick else [("rs", 16), ("py", 16)])
    return run
