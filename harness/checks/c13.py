"""C13 check: MC_BigNat + MC_Duration (number and limb arithmetic) + TV of parsed durations and intervals."""


def run(run):
    run.model_check("MC_BigNat")
    run.model_check("MC_Duration")
    run.drive([("rs", 8), ("py", 8)])
    return run
