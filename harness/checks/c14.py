"""C14 check: TV of pickle/copy/deepcopy as stuttering steps on the abstraction."""


def run(run):
    run.model_check("MC_Zones")
    run.drive([("rs", 16), ("py", 8)])
    return run
