"""C14 check: TV of pickle/copy/deepcopy as stuttering steps on the abstraction."""


def run(run):
    run.model_check("MC_Zones")
    # the Session state machine itself: exhaustive to depth 2 on every change, to depth 3 in the thorough tier
    # (3 394 distinct states / 743 k transitions, 21 min on 16 cores), every invariant and action property
    run.model_check("MC_Session", env_={"PV_DEPTH": "2" if run.tier == "quick" else "3"}, heap="6g", timeout=7200)
    run.drive([("rs", 16), ("py", 8)])
    return run
