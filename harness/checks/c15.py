"""C15 check: exhaustive MC of the calendar reference (closed forms vs induction, Alg* refinement)
+ TV of the primitives/getters for every year and date in both back-ends."""


def run(run):
    if run.quick:
        # a full 400-year Gregorian cycle (every leap pattern x weekday) + both ends of the range
        for (a, b) in ((1, 30), (1990, 2400), (9970, 9999)):
            run.model_check("MC_Calendar", env_={"PV_Y0": str(a), "PV_Y1": str(b)})
    else:
        run.model_check("MC_Calendar", env_={"PV_Y0": "1", "PV_Y1": "9999"}, heap="8g")
    run.drive([("rs", 16), ("py", 16)])
    return run
