"""C16 check: MC_Calendar (NthWeekdayOfMonth / LastWeekdayOfMonth against the induction) + TV of weekday
navigation over all month shapes and on days with a skipped or repeated midnight."""


def run(run):
    run.model_check("MC_Calendar", env_={"PV_Y0": "2016", "PV_Y1": "2044"})
    run.drive([("rs", 16), ("py", 8)] if run.quick else [("rs", 16), ("py", 16)])
    return run
