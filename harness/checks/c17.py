"""C17 check: MC_IsoText (the recogniser) + TV of parse() outcomes over edited / truncated / concatenated /
random strings: totality, cross-back-end agreement, strict rejection, recognised strings parse to what they denote."""


def run(run):
    run.model_check("MC_IsoText")
    run.drive([("rs", 16), ("py", 16)])
    return run
