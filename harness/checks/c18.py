"""C18 check: TV of format_diff / diff_for_humans / in_words over all locales, units, plural classes and flags,
against the admissible (unit, count) set, direction and template key of FormatTokens.tla."""


def run(run):
    run.model_check("MC_Duration")
    run.drive([("rs", 8), ("py", 8)])
    return run
