"""C19 check: MC_Range (the generator loop as a state machine: no drift, inside, strictly monotone,
terminates under weak fairness) + TV of recorded ranges in lock-step with the closed form."""


def run(run):
    run.model_check("MC_Range")
    run.drive([("rs", 16), ("py", 8)])
    return run
