"""C01 - conversion preserves the instant and matches the tz database.
Stimuli: every UTC-offset transition of every zone (explicit + rule era) probed around the
transition; chains A->B->C vs A->C threading the real objects; timestamps; instance() of
native aware datetimes of every tzinfo kind; random instants over years 2..9998."""
from __future__ import annotations

from ..proj import enc, i3_to_wall, mk_dt, sec_to_i3
from .common import (FIXED_OFFSETS, HI, LO, UTCZ, pick, probes, real_zone_names, synth_zone_names, utc_dt,
                     zone_transitions)

DYADIC_US = (0, 500000, 250000, 125000, 750000, 15625, 984375)
F_LO = -8_000_000_000  # |t| < 2^33 s: float timestamps with dyadic fractions are exact
F_HI = 8_000_000_000


def drive(ctx):
    from .. import suite

    suite.trace_suite(ctx)      # the repository's own tests, recorded by the external tracer
    from .. import gr

    gr.replay(ctx)          # behaviours of the Session state machine, real objects threaded
    names = real_zone_names(ctx)
    synth = synth_zone_names(ctx)
    rnd = ctx.rnd
    q = ctx.quick()
    full = ctx.backend == "rs" or not q
    my = ctx.mine(names) + ctx.mine(synth)
    # chain targets come from a small per-shard pool so that a chunk references few zone tables
    allz = ctx.rnd.sample(names, 10) + synth
    for zn in my:
        zr = {"n": zn, "fo": 0}
        trs = zone_transitions(ctx, zn)
        trs = pick(rnd, trs, (16 if full else 4) if q else 48)       # thorough: 48 transitions of every zone
        for (sec, b, a) in trs:
            ps = probes(sec, b, a)
            deep = pick(rnd, range(len(ps)), 1 if q else 4)
            for k, i3 in enumerate(ps):
                src = utc_dt(i3)
                r1 = ctx.emit("in_tz", {"tz": zr, "how": "name" if k % 2 else "obj",
                                        "m": "in_timezone" if k % 3 == 0 else "in_tz"}, [src])
                if k not in deep or isinstance(r1, Exception):
                    continue
                # chain: A -> B -> C and A -> C on the threaded real object; timestamps; astimezone
                tz_b = rnd.choice(allz)
                tz_c = rnd.choice(allz)
                fo = rnd.choice(FIXED_OFFSETS)
                r2 = ctx.emit("in_tz", {"tz": {"n": tz_b, "fo": 0}}, pre_objs=[r1])
                ctx.emit("in_tz", {"tz": {"n": tz_c, "fo": 0}}, pre_objs=[r1])
                if not isinstance(r2, Exception):
                    ctx.emit("in_tz", {"tz": {"n": tz_c, "fo": 0}}, pre_objs=[r2])
                    ctx.emit("in_tz", {"tz": zr}, pre_objs=[r2])  # and back
                r3 = ctx.emit("in_tz", {"tz": {"n": "", "fo": fo}}, pre_objs=[r1])
                if not isinstance(r3, Exception):
                    ctx.emit("in_tz", {"tz": zr}, pre_objs=[r3])
                ctx.emit("int_timestamp", {}, pre_objs=[r1])
                ctx.emit("astimezone", {"tz": {"n": tz_b, "fo": 0}, "zk": "zoneinfo"}, pre_objs=[r1])
                ctx.emit("astimezone", {"tz": zr, "zk": "pendulum"}, [src])
                ctx.emit("from_timestamp", {"i": [i3[0], i3[1], 0], "tz": zr, "how": "name" if k % 2 else "obj"})
                ctx.emit("from_timestamp", {"i": [i3[0], i3[1], 0], "tz": zr, "entry": "fromtimestamp"})
                if F_LO < sec < F_HI:
                    us = DYADIC_US[k % len(DYADIC_US)]
                    ctx.emit("from_timestamp", {"i": [i3[0], i3[1], us], "tz": zr})
                    fsrc = mk_dt(UTCZ, i3_to_wall([i3[0], i3[1], us]), 0)
                    rf = ctx.emit("in_tz", {"tz": zr}, [fsrc])
                    ctx.emit("timestamp", {"m": "float_timestamp" if k % 2 else "timestamp"}, pre_objs=[rf])
                # instance() of native aware datetimes that denote this instant, by tzinfo kind
                if not zn.startswith("Verif/"):
                    w = enc(r1)
                    for kind in ("zoneinfo", "pendulum", "pytz", "dateutil"):
                        for f in (0, 1):
                            ctx.emit("instance", {"kind": kind, "named": kind != "dateutil", "tz": zr,
                                                  "w": w["w"], "f": f,
                                                  "m": "DateTime.instance" if f else "instance"})
                ctx.emit("instance", {"kind": "timezone", "named": False, "tz": {"n": "", "fo": fo},
                                      "w": enc(r1)["w"], "f": 0})
    # random instants over the whole range
    nr = 150 if q else 1500
    for _ in range(nr):
        sec = rnd.randrange(LO, HI)
        i3 = sec_to_i3(sec, rnd.choice((0, 1, 999999, rnd.randrange(1000000))))
        za, zb = rnd.choice(allz), rnd.choice(allz)
        r1 = ctx.emit("in_tz", {"tz": {"n": za, "fo": 0}}, [utc_dt(i3)])
        if not isinstance(r1, Exception):
            ctx.emit("in_tz", {"tz": {"n": zb, "fo": 0}}, pre_objs=[r1])
            ctx.emit("in_tz", {"tz": {"n": "", "fo": rnd.randrange(-86399, 86400)}}, pre_objs=[r1])
            ctx.emit("int_timestamp", {}, pre_objs=[r1])
