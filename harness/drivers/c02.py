"""C02 - wall-clock construction is normalised by the documented DST rules.
Stimuli: every gap and overlap of every zone, enumerated from the tz data; wall times at the
boundaries and inside x fold x raise_on_unknown_times x every construction entry point."""
from __future__ import annotations

from ..proj import mk_dt
from .common import NAIVE, anomalies, pick, real_zone_names, synth_zone_names, wall_of_localsec

MAIN = ("datetime", "create", "tz_convert", "tz_convert_p", "datetime_pos", "create_pos")


def walls_of(kind, ws, we):
    mid = (ws + we) // 2
    return [(ws - 1, 999999), (ws, 0), (ws, 1), (mid, 500000), (we - 1, 999999), (we, 0), (we + 1, 0)]


def drive(ctx):
    from .. import suite

    suite.trace_suite(ctx)      # the repository's own tests, recorded by the external tracer
    from .. import gr

    gr.replay(ctx)          # behaviours of the Session state machine, real objects threaded
    q = ctx.quick()
    full = ctx.backend == "rs" or not q
    rnd = ctx.rnd
    my = ctx.mine(real_zone_names(ctx)) + ctx.mine(synth_zone_names(ctx))
    n = 0
    for zn in my:
        zr = {"n": zn, "fo": 0}
        an = anomalies(ctx, zn)
        an = pick(rnd, an, (8 if full else 2) if q else 24)          # thorough: 24 anomalies of every zone, every entry point
        for (kind, ws, we, _sec, _b, _a) in an:
            for (ls, us) in walls_of(kind, ws, we):
                w = wall_of_localsec(ls, us)
                if not (2 < w[0] < 9998):
                    continue
                n += 1
                for f in (0, 1):
                    for strict in (False, True):
                        entry = MAIN[(n + f + 2 * strict) % len(MAIN)] if q else None
                        for en in ([entry] if entry else MAIN):
                            cls = "datetime" if en == "tz_convert" else "DateTime"
                            ctx.emit("create", {"tz": zr, "w": w, "f": f, "strict": strict, "entry": en, "cls": cls,
                                                "how": "name" if (n + f) % 2 and en in ("datetime", "create") else "obj"})
                ctx.emit("create", {"tz": zr, "w": w, "f": 1, "strict": False, "entry": "tz_datetime", "cls": "datetime"})
                if n % 3 == 0 or not q:
                    ctx.emit("create", {"tz": zr, "w": w, "f": 1, "strict": False, "entry": "local", "cls": "DateTime"})
                    ctx.emit("create", {"tz": zr, "w": w, "f": 1, "strict": False, "entry": "parse_tz", "cls": "DateTime",
                                        "how": "name" if n % 2 else "obj"})
                ctx.emit("naive_in_tz", {"tz": zr}, [mk_dt(NAIVE, w, n % 2)])
                # set()/on()/at()/replace() from a far-away value of each fold
                far = wall_of_localsec(ls + 40 * 86400 + 3600 * 5 + 61, 7)
                for f in (0, 1):
                    k = (n + f) % 4
                    if k == 0 or not q:
                        src = mk_dt(zr, far[:3] + w[3:], f)       # same time of day, other date
                        ctx.emit("set", {"o": w[:3] + [-1, -1, -1, -1], "entry": "on"}, [src])
                    if k == 1 or not q:
                        src = mk_dt(zr, w[:3] + far[3:], f)       # same date, other time
                        ctx.emit("set", {"o": [-1, -1, -1] + w[3:], "entry": "at"}, [src])
                    if k == 2 or not q:
                        src = mk_dt(zr, far, f)
                        ctx.emit("set", {"o": list(w), "entry": "set"}, [src])
                    if k == 3 or not q:
                        src = mk_dt(zr, far, f)
                        ctx.emit("replace", {"o": list(w), "f": (-1, 0, 1)[(n // 4) % 3]}, [src])
                # partial overrides from a NEARBY value: only one field differs (same day, same hour, same minute)
                for (i, alt) in ((3, (w[3] + 5) % 24), (4, (w[4] + 30) % 60), (4, (w[4] + 1) % 60), (5, (w[5] + 29) % 60)):
                    n2 = n + i + alt
                    if q and n2 % 3:
                        continue
                    sw = list(w)
                    sw[i] = alt
                    o = [-1] * 7
                    o[i] = w[i]
                    src = mk_dt(zr, sw, n2 % 2)
                    ctx.emit("set", {"o": o, "entry": "set"}, [src])
                    ctx.emit("set", {"o": [-1, -1, -1] + w[3:], "entry": "at"}, [src])
                    if n2 % 3 == 0 or not q:
                        ctx.emit("replace", {"o": o, "f": (-1, 0, 1)[n2 % 3]}, [src])
    # fixed offsets and UTC: every wall time is unique
    for k in range(40 if q else 400):
        fo = rnd.randrange(-86399, 86400) if k % 2 else rnd.choice((-86340, -19800, 0, 20700, 50400, 86340))
        w = [rnd.randrange(3, 9998), rnd.randrange(1, 13), rnd.randrange(1, 29), rnd.randrange(24), rnd.randrange(60),
             rnd.randrange(60), rnd.randrange(1000000)]
        for f in (0, 1):
            ctx.emit("create", {"tz": {"n": "", "fo": fo}, "w": w, "f": f, "strict": bool(k % 3 == 0),
                                "entry": MAIN[k % 4], "cls": "datetime" if MAIN[k % 4] == "tz_convert" else "DateTime"})
        ctx.emit("create", {"tz": {"n": "UTC", "fo": 0}, "w": w, "f": k % 2, "strict": True, "entry": "datetime",
                            "cls": "DateTime"})
