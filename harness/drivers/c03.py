"""C03 - adding fixed-length units moves the instant by exactly that elapsed time.
Stimuli: values on either side of / inside every transition (both folds, real objects obtained by
conversion and raw-constructed ambiguous values), amounts straddling the transition by every entry
point, subtract() undoing add() on the threaded object, random mixed-sign amounts up to 1e9 s, naive."""
from __future__ import annotations

from ..proj import i3_to_wall, mk_dt, sec_to_i3
from .common import HI, LO, NAIVE, anomalies, pick, probes, real_zone_names, synth_zone_names, utc_dt, \
    wall_of_localsec, zone_transitions

ENTRIES = ("add", "subtract", "plus_td", "minus_td", "radd_td")


def amounts(g):
    """(h, mi, s, us) tuples: small, gap-sized, day-sized, mixed sign that partly cancel"""
    return [(0, 0, 0, 1), (0, 0, 0, -1), (0, 0, 1, 0), (0, 0, -1, 0), (0, 0, g, 0), (0, 0, -g, 0),
            (0, 0, 3599, 999999), (0, -59, -59, -999999), (23, 59, 59, 999999), (-24, 0, 0, 1),
            (2, -60, -3600, 0), (1, -120, 3601, -1000001), (0, 0, 86399, 0), (-25, 61, -61, 1000000),
            (48, 0, -g, 5), (0, 1440, 0, 0),
            # mixed signs whose NUMBERS cancel although the amounts do not (1 h - 1 min), and amounts that do cancel
            (1, -1, 0, 0), (-3, 0, 2, 1), (2, -1, -1, 0), (0, 5, -5, 0), (0, 0, 1, -1), (1, 0, 0, -1), (0, 0, -7, 7),
            (1, -60, 0, 0), (0, 1, -60, 0), (0, 0, 1, -1000000)]


def drive(ctx):
    from .. import suite

    suite.trace_suite(ctx)      # the repository's own tests, recorded by the external tracer
    from .. import gr

    gr.replay(ctx)          # behaviours of the Session state machine, real objects threaded
    q = ctx.quick()
    full = ctx.backend == "rs" or not q
    rnd = ctx.rnd
    my = ctx.mine(real_zone_names(ctx)) + ctx.mine(synth_zone_names(ctx))
    n = 0
    for zn in my:
        zr = {"n": zn, "fo": 0}
        trs = zone_transitions(ctx, zn)
        trs = pick(rnd, trs, (10 if full else 3) if q else 12)
        for (sec, b, a) in trs:
            g = abs(a - b) or 3600
            ps = probes(sec, b, a)
            if q:
                ps = pick(rnd, ps, 4)
            for i3 in ps:
                src = ctx.emit("in_tz", {"tz": zr}, [utc_dt(i3)])
                if isinstance(src, Exception):
                    continue
                am = amounts(g)
                if q:
                    am = pick(rnd, am, 4)
                for (h, mi, s, us) in am:
                    n += 1
                    en = ENTRIES[n % len(ENTRIES)]
                    args = {"h": h, "mi": mi, "s": s, "us": us, "entry": en}
                    r = ctx.emit("add_fixed", args, pre_objs=[src])
                    if not isinstance(r, Exception) and n % 2 == 0:
                        # undo on the threaded object: subtract() with the same arguments
                        inv = {"add": "subtract", "subtract": "add", "plus_td": "minus_td", "minus_td": "plus_td",
                               "radd_td": "minus_td"}[en]
                        ctx.emit("add_fixed", dict(args, entry=inv), pre_objs=[r])
        # raw-constructed values inside overlaps, both folds
        an = [x for x in anomalies(ctx, zn) if x[0] == "overlap"]
        for (kind, ws, we, _s, _b, _a) in pick(rnd, an, 4 if q else 24):
            g = we - ws
            for (ls, us) in ((ws, 0), ((ws + we) // 2, 5), (we - 1, 999999)):
                w = wall_of_localsec(ls, us)
                if not (2 < w[0] < 9998):
                    continue
                for f in (0, 1):
                    for (h, mi, s, us2) in pick(rnd, amounts(g), 3 if q else 16):
                        n += 1
                        ctx.emit("add_fixed", {"h": h, "mi": mi, "s": s, "us": us2, "entry": ENTRIES[n % 5]},
                                 [mk_dt(zr, w, f)])
    # random amounts up to 1e9 s with mixed-sign components, any zone of this slice, and naive
    zs = my or ["UTC"]
    for k in range(300 if q else 4000):
        sec = rnd.randrange(LO + 10 ** 9 + 86400 * 400, HI - 10 ** 9 - 86400 * 400)
        i3 = sec_to_i3(sec, rnd.randrange(1000000))
        tot = rnd.randrange(-10 ** 9, 10 ** 9)
        h = rnd.randrange(-200000, 200000)
        mi = rnd.randrange(-10 ** 6, 10 ** 6)
        s = tot - h * 3600 - mi * 60
        us = rnd.randrange(-10 ** 9, 10 ** 9)
        if abs(s) >= 2 * 10 ** 9:
            continue
        en = ENTRIES[k % 5]
        args = {"h": h, "mi": mi, "s": s, "us": us, "entry": en}
        if k % 5 == 4:
            ctx.emit("add_fixed", args, [mk_dt(NAIVE, i3_to_wall(i3), k % 2)])
            continue
        zr = {"n": rnd.choice(zs), "fo": 0} if k % 7 else {"n": "", "fo": rnd.randrange(-86399, 86400)}
        src = ctx.emit("in_tz", {"tz": zr}, [utc_dt(i3)])
        if not isinstance(src, Exception):
            r = ctx.emit("add_fixed", args, pre_objs=[src])
            if not isinstance(r, Exception):
                ctx.emit("add_fixed", dict(args, entry={"add": "subtract", "subtract": "add", "plus_td": "minus_td",
                                                        "minus_td": "plus_td", "radd_td": "minus_td"}[en]), pre_objs=[r])
