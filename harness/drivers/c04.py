"""C04 - calendar-unit arithmetic follows the wall clock with end-of-month clamping.
Duration operands of mixed signs included: the specification re-normalises their components (DurC).
Stimuli: every month length / leap day / year boundary x month shifts beyond +-12 x day shifts beyond a
month, for Date and DateTime; targets placed inside gaps and overlaps of the tz data (sources built with
both folds); the operator paths + Duration, - Duration, + (-Duration), subtract(components)."""
from __future__ import annotations

import datetime as _dt

from ..proj import mk_dt
from .common import NAIVE, UTCZ, anomalies, pick, real_zone_names, synth_zone_names, wall_of_localsec

DT_ENTRIES = ("add", "subtract", "plus_dur", "minus_dur", "plus_neg_dur", "radd_dur")
D_ENTRIES = ("add", "subtract", "plus_dur", "minus_dur", "plus_neg_dur", "plus_td", "minus_td")
Z0 = {"y": 0, "mo": 0, "w": 0, "d": 0, "h": 0, "mi": 0, "s": 0, "us": 0}


def C(**kw):
    c = dict(Z0)
    c.update(kw)
    return c


def canonical(rnd, sign, cal=True, time=True):
    """components a Duration reports back unchanged: one sign, canonical ranges"""
    c = dict(Z0)
    if cal:
        c["y"] = sign * rnd.choice((0, 0, 1, 3, 11))
        c["mo"] = sign * rnd.choice((0, 1, 2, 11, 13, 25))
        c["w"] = sign * rnd.choice((0, 0, 1, 5))
        c["d"] = sign * rnd.choice((0, 1, 6))
    if time:
        c["h"] = sign * rnd.choice((0, 1, 23))
        c["mi"] = sign * rnd.choice((0, 59))
        c["s"] = sign * rnd.choice((0, 1, 59))
        c["us"] = sign * rnd.choice((0, 1, 999999))
    return c


def mixed(rnd, time=True):
    """components of independent signs (a Duration re-normalises everything but years and months)"""
    c = dict(Z0)
    c["y"] = rnd.choice((0, 0, 1, -1, 3))
    c["mo"] = rnd.choice((0, 1, -1, 2, -11, 13))
    c["w"] = rnd.choice((0, 0, 1, -1, 5, -5))
    c["d"] = rnd.choice((0, 1, -1, 3, -3, 6, -10, 45, -45))
    if time:
        c["h"] = rnd.choice((0, 1, -1, 23, -25))
        c["mi"] = rnd.choice((0, 59, -61))
        c["s"] = rnd.choice((0, 1, -1, 3601))
        c["us"] = rnd.choice((0, 1, -1, 999999))
    return c


def drive(ctx):
    from .. import suite

    suite.trace_suite(ctx)      # the repository's own tests, recorded by the external tracer
    from .. import gr

    gr.replay(ctx)          # behaviours of the Session state machine, real objects threaded
    q = ctx.quick()
    rnd = ctx.rnd
    n = 0
    # (a) month shapes: every (month, day) of a leap / common / century year
    starts = []
    for y in (2023, 2024, 1900, 2000, 2099, 2100):
        d = _dt.date(y, 1, 1)
        while d.year == y:
            if d.day >= 27 or d.day <= 2 or not q:
                starts.append(d)
            d += _dt.timedelta(days=1)
    starts = ctx.mine(starts)
    shifts = list(range(-25, 26))
    for d in starts:
        for mo in (pick(rnd, shifts, 6) if q else shifts):
            n += 1
            yy = (0, 1, -1, 4, -4)[n % 5] if n % 3 == 0 else 0
            dd = (0, 0, 1, -1, 31, -31, 45, -400)[n % 8]
            ww = (0, 0, 0, 2, -7)[n % 5]
            c = C(y=yy, mo=mo, w=ww, d=dd)
            ctx.emit("add_cal_date", {"c": c, "entry": ("add", "subtract")[n % 2]},
                     [{"k": "date", "w": [d.year, d.month, d.day], "cls": "Date"}])
            tm = [(0, 0, 0, 0), (23, 59, 59, 999999), (12, 30, 15, 5)][n % 3]
            c2 = dict(c, h=(0, 25, -49)[n % 3], mi=(0, -61, 0)[n % 3], s=(0, 0, 3601)[n % 3], us=(0, 1, -1)[n % 3])
            ctx.emit("add_cal", {"c": c2, "entry": ("add", "subtract")[n % 2]},
                     [mk_dt(UTCZ if n % 4 else NAIVE, [d.year, d.month, d.day] + list(tm), 0)])
            # Duration operator paths (canonical signatures)
            cc = canonical(rnd, (1, -1)[n % 2]) if n % 3 else mixed(rnd)
            if any(cc.values()):
                ctx.emit("add_cal", {"c": cc, "entry": DT_ENTRIES[n % 6]},
                         [mk_dt(UTCZ, [d.year, d.month, d.day] + list(tm), 0)])
                cd = canonical(rnd, (1, -1)[n % 2], time=False) if n % 3 else mixed(rnd, time=False)
                if D_ENTRIES[n % 7] in ("plus_td", "minus_td"):
                    cd = dict(cd, y=0, mo=0)        # a timedelta carries whole days only
                ctx.emit("add_cal_date", {"c": cd, "entry": D_ENTRIES[n % 7]},
                         [{"k": "date", "w": [d.year, d.month, d.day], "cls": "Date"}])
    # (a') 29 February shifted by whole years only (no month shift), every entry point, Date and DateTime
    for (y0, yrs) in ctx.mine([(y0, yrs) for y0 in (2020, 2024, 2000, 2096) for yrs in (1, -1, 2, 3, 4, 5, -3, 100, -100, 400)]):
        for en in ("add", "subtract", "plus_dur", "minus_dur", "plus_neg_dur"):
            n += 1
            c = C(y=yrs)
            ctx.emit("add_cal_date", {"c": c, "entry": en}, [{"k": "date", "w": [y0, 2, 29], "cls": "Date"}])
            ctx.emit("add_cal", {"c": c, "entry": en}, [mk_dt(UTCZ if n % 2 else NAIVE, [y0, 2, 29, 1, 2, 3, 4], 0)])
            ctx.emit("add_cal_date", {"c": C(y=yrs, d=1), "entry": en}, [{"k": "date", "w": [y0, 2, 29], "cls": "Date"}])
    # (a'') the last year of the range: shifts from and into year 9999 that stay representable
    for (w0, c) in ctx.mine([([9999, 3, 15], C(mo=1)), ([9999, 1, 31], C(mo=1)), ([9998, 12, 31], C(d=1)), ([9998, 6, 30], C(y=1)),
                             ([9999, 12, 1], C(d=20)), ([9999, 5, 5], C(mo=-3, d=2)), ([9999, 2, 28], C(w=2)), ([9990, 1, 1], C(y=9, mo=11)),
                             ([9999, 12, 25], C(d=-400)), ([9999, 7, 1], C(y=-5000))]):
        for en in ("add", "subtract", "plus_dur", "minus_dur"):
            cc = c if en in ("add", "plus_dur") else {k2: -v for k2, v in c.items()}
            ctx.emit("add_cal_date", {"c": cc, "entry": en}, [{"k": "date", "w": w0, "cls": "Date"}])
            ctx.emit("add_cal", {"c": cc, "entry": en}, [mk_dt(UTCZ, w0 + [12, 0, 0, 0], 0)])
            ctx.emit("add_cal", {"c": cc, "entry": en}, [mk_dt(NAIVE, w0 + [0, 0, 0, 1], 0)])
    # (b) targets inside / at the edges of gaps and overlaps
    full = ctx.backend == "rs" or not q
    for zn in ctx.mine(real_zone_names(ctx)) + ctx.mine(synth_zone_names(ctx)):
        zr = {"n": zn, "fo": 0}
        an = anomalies(ctx, zn)
        an = pick(rnd, an, (6 if full else 2) if q else 20)
        for (kind, ws, we, _s, _b, _a) in an:
            for (ls, us) in ((ws, 0), ((ws + we) // 2, 7), (we - 1, 999999), (we, 0), (ws - 1, 0)):
                tw = wall_of_localsec(ls, us)
                if not (3 < tw[0] < 9997):
                    continue
                shapes = [C(d=1), C(d=-1), C(w=1), C(mo=1), C(mo=-1), C(y=1), C(y=-1, mo=2, d=-3),
                          C(d=1, h=2), C(d=-1, h=-1, mi=-30), C(d=2, s=-1), C(mo=12, us=1), C(w=-2, d=3, h=5),
                          C(d=1, h=-2), C(d=-1, h=3), C(mo=1, d=-3), C(y=-1, w=1, d=-2)]
                for c in (pick(rnd, shapes, 5) if q else shapes):
                    n += 1
                    # source wall = target wall shifted back on the calendar (naive arithmetic, only to aim)
                    t = _dt.datetime(*tw)
                    try:
                        y2, m2 = t.year - c["y"], t.month - c["mo"]
                        while m2 < 1:
                            y2, m2 = y2 - 1, m2 + 12
                        while m2 > 12:
                            y2, m2 = y2 + 1, m2 - 12
                        s0 = t.replace(year=y2, month=m2) - _dt.timedelta(days=c["d"] + 7 * c["w"], hours=c["h"],
                                                                          minutes=c["mi"], seconds=c["s"],
                                                                          microseconds=c["us"])
                    except (ValueError, OverflowError):
                        continue
                    sw = [s0.year, s0.month, s0.day, s0.hour, s0.minute, s0.second, s0.microsecond]
                    if not (3 < sw[0] < 9997):
                        continue
                    for f in (0, 1):
                        en = DT_ENTRIES[(n + f) % 6]
                        cc = c
                        if en in ("subtract", "minus_dur", "plus_neg_dur"):
                            cc = {k: -v for k, v in c.items()}
                        ctx.emit("add_cal", {"c": cc, "entry": en}, [mk_dt(zr, sw, f)])
    # (c) random
    for k in range(200 if q else 3000):
        w = [rnd.randrange(30, 9970), rnd.randrange(1, 13), rnd.choice((1, 15, 28, 29, 30, 31)), rnd.randrange(24),
             rnd.randrange(60), rnd.randrange(60), rnd.randrange(1000000)]
        try:
            _dt.date(*w[:3])
        except ValueError:
            continue
        c = C(y=rnd.randrange(-20, 21), mo=rnd.randrange(-40, 41), w=rnd.randrange(-60, 61), d=rnd.randrange(-500, 501),
              h=rnd.randrange(-100, 101), mi=rnd.randrange(-3000, 3001), s=rnd.randrange(-10 ** 5, 10 ** 5),
              us=rnd.randrange(-10 ** 7, 10 ** 7))
        ctx.emit("add_cal", {"c": c, "entry": ("add", "subtract")[k % 2] if k % 3 else DT_ENTRIES[2 + k % 4]},
                 [mk_dt({"n": "", "fo": rnd.randrange(-86399, 86400)} if k % 2 else UTCZ, w, 0)])


def same_sign(c):
    vals = [v for v in c.values() if v]
    return all(v > 0 for v in vals) or all(v < 0 for v in vals)
