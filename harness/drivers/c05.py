"""C05 - an interval's length is the exact elapsed time between its endpoints.
Pairs from the transition enumeration (both sides, both folds; same tzinfo object, same name but a
different object, different zones), Date pairs, naive pairs, random pairs over years 2..9998."""
from __future__ import annotations

from ..proj import i3_to_wall, mk_dt, sec_to_i3
from .common import FIXED_OFFSETS, HI, LO, NAIVE, UTCZ, anomalies, pick, real_zone_names, synth_zone_names, \
    wall_of_localsec, zone_transitions

ENTRIES = ("interval", "interval_abs", "Interval", "sub", "diff", "diff_default", "abs", "sub_native", "rsub_native")
NK = ("same", "timezone", "zoneinfo", "dateutil")          # tzinfo kind of the native operand of sub_native / rsub_native
D_ENTRIES = ("interval", "interval_abs", "sub", "diff", "diff_default", "abs")


def local_wall(sec, off, us=0):
    return i3_to_wall(sec_to_i3(sec + off, us))


def drive(ctx):
    from .. import gr

    gr.replay(ctx)          # behaviours of the Session state machine: queries on values with a history
    q = ctx.quick()
    full = ctx.backend == "rs" or not q
    rnd = ctx.rnd
    names = real_zone_names(ctx)
    my = ctx.mine(names) + ctx.mine(synth_zone_names(ctx))
    pool = rnd.sample(names, 6)
    n = 0
    for zn in my:
        zr = {"n": zn, "fo": 0}
        trs = zone_transitions(ctx, zn)
        if q:
            trs = pick(rnd, trs, 10 if full else 3)
        for (sec, b, a) in trs:
            g = abs(a - b) or 3600
            # walls on either side of and inside the transition, written with the offset in force
            pts = [(sec - g - 7, b, 0), (sec - 1, b, 999999), (sec, a, 0), (sec + 1, a, 1), (sec + g + 5, a, 0),
                   (sec - 86400 * 3, b, 0), (sec + 86400 * 200, a, 5)]
            vals = []
            for (s, off, us) in pts:
                if LO < s < HI:
                    w = local_wall(s, off, us)
                    for f in (0, 1):
                        vals.append((w, f))
            pairs = [(x, y) for x in vals for y in vals if x is not y]
            for (x, y) in (pick(rnd, pairs, 8) if q else pick(rnd, pairs, 40)):
                n += 1
                kind = n % 4
                va = mk_dt(zr, x[0], x[1])
                if kind == 0:
                    vb = mk_dt(zr, y[0], y[1])                                   # same tzinfo object
                elif kind == 1:
                    vb = mk_dt(zr, y[0], y[1], zk="pendulum-nocache")           # same name, other object
                elif kind == 2:
                    vb = mk_dt({"n": rnd.choice(pool), "fo": 0}, y[0], y[1])     # different zones
                else:
                    vb = mk_dt({"n": "", "fo": rnd.choice(FIXED_OFFSETS)}, y[0], y[1])
                ctx.emit("iv_len", {"entry": ENTRIES[n % len(ENTRIES)], "nk": NK[(n // 9) % 4]}, [va, vb])
        # both occurrences of ambiguous wall times against each other (same object)
        for (kind, ws, we, _s, _b, _a) in pick(rnd, [x for x in anomalies(ctx, zn) if x[0] == "overlap"], 3 if q else 30):
            w1 = wall_of_localsec(ws + (we - ws) // 3, 0)
            w2 = wall_of_localsec(ws + 2 * (we - ws) // 3, 7)
            if not (2 < w1[0] < 9998):
                continue
            for (fa, fb) in ((0, 1), (1, 0), (0, 0), (1, 1)):
                for (x, y) in ((w1, w2), (w2, w1), (w1, w1)):
                    n += 1
                    ctx.emit("iv_len", {"entry": ENTRIES[n % len(ENTRIES)]}, [mk_dt(zr, x, fa), mk_dt(zr, y, fb)])
    # a foreign DST-aware tzinfo (one dateutil object per zone) used at dates with different offsets, one call after
    # the other, on either side of the subtraction
    for zn in my:
        zr = {"n": zn, "fo": 0}
        trs = [t for t in zone_transitions(ctx, zn) if t[1] != t[2] and LO + 86400 * 400 < t[0] < HI - 86400 * 400]
        for (sec, b, a) in pick(rnd, trs, 1 if q else 6):
            va = mk_dt(zr, local_wall(sec - 86400 * 60, b, 5), 0)
            vb = mk_dt(zr, local_wall(sec + 86400 * 60, a, 7), 0)
            vc = mk_dt(UTCZ, i3_to_wall(sec_to_i3(sec, 1)), 0)
            for (x, y) in ((va, vc), (vb, vc), (va, vb), (vb, va)):
                for en in ("sub_native", "rsub_native"):
                    ctx.emit("iv_len", {"entry": en, "nk": "dateutil"}, [x, y])
    # relations built on the elapsed time: closest / farthest / average / same day / anniversary
    for zn in my:
        zr = {"n": zn, "fo": 0}
        trs = zone_transitions(ctx, zn)
        for (sec, b, a) in pick(rnd, trs, 2 if q else 12):
            if not LO + 86400 * 800 < sec < HI - 86400 * 800:
                continue
            other = {"n": rnd.choice(pool), "fo": 0}
            x = mk_dt(zr, local_wall(sec - rnd.randrange(1, 7200), b, rnd.randrange(1000000)), 0)
            cands = [mk_dt(zr, local_wall(sec + rnd.randrange(0, 7200), a, rnd.randrange(1000000)), 1),
                     mk_dt(other, i3_to_wall(sec_to_i3(sec - rnd.randrange(7200, 20000), 5)), 0),
                     mk_dt(UTCZ, i3_to_wall(sec_to_i3(sec + rnd.randrange(-3, 4), rnd.choice((0, 400000, 999999)))), 0),
                     mk_dt(zr, local_wall(sec + 86400 * rnd.randrange(-700, 700), a, 1), 0)]
            for i in range(len(cands)):
                for j in range(len(cands)):
                    if i != j and (not q or (i + j + n) % 2):
                        n += 1
                        ctx.emit("rel", {"m": ("closest", "farthest")[n % 2]}, [x, cands[i], cands[j]])
            for c in cands:
                ctx.emit("rel", {"m": "average"}, [x, c])
                ctx.emit("rel", {"m": "average"}, [c, x])
                ctx.emit("rel", {"m": "is_same_day"}, [x, c])
                ctx.emit("rel", {"m": "is_anniversary"}, [c, x])
    for k in range(60 if q else 1500):
        y, mo, d = rnd.randrange(1900, 2100), rnd.randrange(1, 13), rnd.choice((1, 15, 28))
        da = {"k": "date", "w": [y, mo, d], "cls": "Date"}
        db = {"k": "date", "w": [y + rnd.choice((0, 0, 1, -3)), rnd.choice((mo, mo, 1 + (mo + 4) % 12)), rnd.choice((d, d, 1, 27))], "cls": "Date"}
        dc = {"k": "date", "w": [y + rnd.choice((0, 1)), 1 + (mo + rnd.randrange(12)) % 12, rnd.choice((2, 14, 28))], "cls": "Date"}
        ctx.emit("rel", {"m": ("closest", "farthest")[k % 2]}, [da, db, dc])
        ctx.emit("rel", {"m": "average"}, [da, dc])
        ctx.emit("rel", {"m": "is_same_day"}, [da, db])
        ctx.emit("rel", {"m": "is_anniversary"}, [da, db])
    # an Interval used as a duration: arithmetic, negation, whole-day totals
    OPS = ("as_duration", "neg", "abs", "totals", "totals")        # the arithmetic operators are driven by C10
    for k in range(240 if q else 6000):
        s1 = rnd.randrange(LO + 86400 * 20000, HI - 86400 * 20000)
        s2 = s1 + rnd.choice((1, -1)) * rnd.choice((rnd.randrange(3), rnd.randrange(86400 * 3), rnd.randrange(86400 * 900),
                                                    86400 * rnd.randrange(15000), 7 * 86400 * rnd.randrange(40)))
        w1 = i3_to_wall(sec_to_i3(s1, rnd.choice((0, 0, 1, 999999, rnd.randrange(1000000)))))
        w2 = i3_to_wall(sec_to_i3(s2, rnd.choice((0, 0, 1, 999999, rnd.randrange(1000000)))))
        m = k % 5
        if m == 0:
            pr = [{"k": "date", "w": w1[:3], "cls": "Date"}, {"k": "date", "w": w2[:3], "cls": "Date"}]
        elif m == 1:
            pr = [mk_dt(NAIVE, w1, 0), mk_dt(NAIVE, w2, 0)]
        elif m == 2:
            pr = [mk_dt(UTCZ, w1, 0), mk_dt(UTCZ, w2, 0)]
        elif m == 3:
            fo = {"n": "", "fo": rnd.choice(FIXED_OFFSETS)}
            pr = [mk_dt(fo, w1, 0), mk_dt(fo, w2, 0)]
        else:
            pr = [mk_dt({"n": rnd.choice(pool), "fo": 0}, w1, 0), mk_dt({"n": rnd.choice(pool), "fo": 0}, w2, 1)]
        o = OPS[(k // 5) % len(OPS)]
        ctx.emit("iv_arith", {"o": o, "abs": bool(k % 3 == 0), "n": rnd.choice((2, 3, -2, 7, -1, 1000)) if "div" not in o else
                              rnd.choice((2, 3, -2, 7, 10)), "d": rnd.randrange(-3, 4), "s": rnd.randrange(86400),
                              "us": rnd.choice((0, 1, 999999, 500000))}, pr)
    # Date pairs, naive pairs, random pairs over the whole range
    for k in range(300 if q else 4000):
        s1 = rnd.randrange(LO, HI)
        s2 = rnd.randrange(LO, HI) if k % 3 else s1 + rnd.randrange(-10 ** 7, 10 ** 7)
        if not LO < s2 < HI:
            continue
        w1 = i3_to_wall(sec_to_i3(s1, rnd.randrange(1000000)))
        w2 = i3_to_wall(sec_to_i3(s2, rnd.choice((0, 1, 999999, rnd.randrange(1000000)))))
        m = k % 4
        if m == 0:
            ctx.emit("iv_len", {"entry": D_ENTRIES[k % len(D_ENTRIES)]},
                     [{"k": "date", "w": w1[:3], "cls": "Date"}, {"k": "date", "w": w2[:3], "cls": "Date"}])
        elif m == 1:
            ctx.emit("iv_len", {"entry": ENTRIES[k % 9]}, [mk_dt(NAIVE, w1, 0), mk_dt(NAIVE, w2, k % 2)])
        elif m == 2:
            ctx.emit("iv_len", {"entry": ENTRIES[k % len(ENTRIES)]},
                     [mk_dt({"n": rnd.choice(pool), "fo": 0}, w1, 0), mk_dt({"n": rnd.choice(pool), "fo": 0}, w2, 1)])
        else:
            ctx.emit("iv_len", {"entry": ENTRIES[k % len(ENTRIES)], "nk": NK[(k // 4) % 4]},
                     [mk_dt(UTCZ, w1, 0), mk_dt({"n": "", "fo": rnd.randrange(-86399, 86400)}, w2, 0)])
