"""C06 - interval components are canonical and rebuild the end from the start.
Stimuli: the product (start month/day, end month/day, leap pattern, time-of-day borrow) - sampled in the
quick tier, complete in the thorough tier - for Date, UTC, naive and fixed-offset pairs; zone pairs around
transitions (the spec evaluates the property's premise); reversed pairs; random pairs over years 2..9998;
both helper back-ends are called on every pair (in the rs worker) and must agree."""
from __future__ import annotations

import datetime as _dt

from ..proj import i3_to_wall, mk_dt, sec_to_i3
from .common import HI, LO, NAIVE, UTCZ, pick, real_zone_names, synth_zone_names, zone_transitions

PATTERNS = ((2023, 2023), (2024, 2024), (2023, 2024), (2024, 2025), (2023, 2025), (2096, 2104), (1999, 2000))
TIMES = (((12, 30, 30, 500000), (13, 0, 0, 0)), ((12, 30, 30, 500000), (11, 59, 59, 999999)),
         ((0, 0, 0, 0), (0, 0, 0, 0)), ((23, 59, 59, 999999), (0, 0, 0, 0)))


def days_of(y):
    d = _dt.date(y, 1, 1)
    out = []
    while d.year == y:
        out.append((d.month, d.day))
        d += _dt.timedelta(days=1)
    return out


def drive(ctx):
    from .. import gr

    gr.replay(ctx)          # behaviours of the Session state machine: queries on values with a history
    q = ctx.quick()
    rnd = ctx.rnd
    n = 0
    for (y1, y2) in PATTERNS:
        d1s = ctx.mine(days_of(y1))
        d2s = days_of(y2)
        for (m1, dd1) in d1s:
            ends = d2s
            if q:
                # month ends / starts are where the month branch decides; plus a random sample
                ends = [e for e in d2s if e[1] in (1, 2, 28, 29, 30, 31) and (e[0] + m1) % 3 == 0] + pick(rnd, d2s, 4)
                if dd1 not in (1, 2, 3, 4, 27, 28, 29, 30, 31):
                    ends = pick(rnd, ends, 3)
            for (m2, dd2) in ends:
                n += 1
                k = n % 5
                t1, t2 = TIMES[n % 4]
                rev = n % 7 == 0
                if k == 0:
                    a = {"k": "date", "w": [y1, m1, dd1], "cls": "Date"}
                    b = {"k": "date", "w": [y2, m2, dd2], "cls": "Date"}
                else:
                    zr = (UTCZ, NAIVE, {"n": "", "fo": 19800}, {"n": "", "fo": -12600})[k - 1]
                    a = mk_dt(zr, [y1, m1, dd1] + list(t1), 0)
                    b = mk_dt(zr, [y2, m2, dd2] + list(t2), 0)
                if rev:
                    a, b = b, a
                ctx.emit("iv_comp", {"entry": ("sub", "Interval")[n % 2]}, [a, b])
    # close pairs: every borrow level alone (the end differs from the start by under a second, a minute, an hour,
    # a day ...), both orders - the order test of the helpers must look at every field down to the microsecond
    bases = [[2020, 1, 1, 0, 0, 0, 0], [2019, 12, 31, 23, 59, 59, 700000], [2024, 2, 29, 12, 30, 30, 500000],
             [2023, 3, 31, 23, 59, 59, 999999], [1999, 12, 31, 0, 0, 0, 1], [2021, 7, 15, 8, 0, 59, 999999]]
    deltas = [1, 300000, 999999, 10 ** 6, 10 ** 6 + 1, 59999999, 60 * 10 ** 6, 3599999999, 3600 * 10 ** 6,
              86399999999, 86400 * 10 ** 6, 86400 * 10 ** 6 + 1, 31 * 86400 * 10 ** 6 - 1]
    for w0 in ctx.mine(bases):
        t0 = _dt.datetime(*w0)
        for dl in deltas:
            t1 = t0 + _dt.timedelta(microseconds=dl)
            w1 = [t1.year, t1.month, t1.day, t1.hour, t1.minute, t1.second, t1.microsecond]
            for zr in (UTCZ, NAIVE, {"n": "", "fo": 19800}, {"n": "Europe/Paris", "fo": 0}):
                for (x, y) in ((w0, w1), (w1, w0)):
                    n += 1
                    ctx.emit("iv_comp", {"entry": ("sub", "Interval")[n % 2]}, [mk_dt(zr, x, 0), mk_dt(zr, y, 0)])
    # zone pairs around transitions
    names = real_zone_names(ctx)
    full = ctx.backend == "rs" or not q
    for zn in ctx.mine(names) + ctx.mine(synth_zone_names(ctx)):
        zr = {"n": zn, "fo": 0}
        trs = zone_transitions(ctx, zn)
        if q:
            trs = pick(rnd, trs, 5 if full else 2)
        for (sec, b_, a_) in trs:
            g = abs(a_ - b_) or 3600
            pts = [(sec - 86400 * 40 - 5000, b_), (sec - g - 100, b_), (sec - 1, b_), (sec + g + 100, a_),
                   (sec + 86400 * 31 + 777, a_), (sec + 86400 * 400, a_)]
            vals = []
            for (s, off) in pts:
                if LO < s < HI:
                    # written with the offset in force at the transition; far points are re-rendered by the zone
                    vals.append(i3_to_wall(sec_to_i3(s + off, (s * 7) % 1000000)))
            pairs = [(x, y) for x in vals for y in vals if x is not y]
            for (x, y) in pick(rnd, pairs, 6 if q else 30):
                n += 1
                other = {"n": rnd.choice(names), "fo": 0} if n % 3 == 0 else zr
                ctx.emit("iv_comp", {"entry": "sub"}, [mk_dt(zr, x, n % 2), mk_dt(other, y, (n // 2) % 2)])
    # random pairs
    for k in range(300 if q else 5000):
        s1 = rnd.randrange(LO, HI)
        s2 = s1 + rnd.choice((1, -1)) * rnd.choice((0, rnd.randrange(3), rnd.randrange(86400 * 70), rnd.randrange(86400 * 800),
                                                    rnd.randrange(86400 * 365 * 300)))
        if not LO < s2 < HI:
            continue
        w1 = i3_to_wall(sec_to_i3(s1, rnd.randrange(1000000)))
        w2 = i3_to_wall(sec_to_i3(s2, rnd.choice((0, 999999, rnd.randrange(1000000)))))
        zr = (UTCZ, NAIVE, {"n": "", "fo": rnd.randrange(-86399, 86400)}, {"n": rnd.choice(names), "fo": 0})[k % 4]
        ctx.emit("iv_comp", {"entry": "sub"}, [mk_dt(zr, w1, 0), mk_dt(zr, w2, 0)])
    # one instant written in two differently named zones (both orders): on one wall-clock date, on two dates, on two months
    for (w, o1, o2) in ctx.mine([([2001, 3, 25, 2, 30, 0, 0], 19800, 3600), ([2001, 3, 25, 12, 0, 0, 0], 19800, 3600),
                                 ([2020, 3, 1, 1, 0, 0, 5], 7200, -3600), ([2021, 1, 1, 0, 30, 0, 0], 3600, 0),
                                 ([2016, 7, 10, 23, 59, 59, 999999], -18000, 32400), ([2001, 3, 25, 0, 0, 0, 0], 45900, -43200)]):
        t0 = _dt.datetime(*w)
        t1 = t0 - _dt.timedelta(seconds=o1 - o2)
        w1 = [t1.year, t1.month, t1.day, t1.hour, t1.minute, t1.second, t1.microsecond]
        for (x, y) in ((mk_dt({"n": "", "fo": o1}, w, 0), mk_dt({"n": "", "fo": o2}, w1, 0)),
                       (mk_dt({"n": "", "fo": o2}, w1, 0), mk_dt({"n": "", "fo": o1}, w, 0))):
            ctx.emit("iv_comp", {"entry": "sub"}, [x, y])
            ctx.emit("iv_comp", {"entry": "Interval"}, [x, y])
