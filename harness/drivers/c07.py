"""C07 - ISO 8601 / RFC 3339 date and time strings parse to the value they denote.
Forms {calendar, ordinal, week} x {basic, extended} x {date only, T/space + hh, hh:mm, hh:mm:ss, fraction of
1..9 digits after '.' or ','} x {none, Z, +-hh, +-hh:mm} x {exact} x {tz} over boundary field values, incl.
impossible dates / weeks / ordinals; whole years of dates in each of the six date forms (all years in the
thorough tier); parse() inverting the renderers for UTC / fixed-offset DateTimes."""
from __future__ import annotations

import calendar

from ..isoforms import form
from ..proj import i3_to_wall, mk_dt, sec_to_i3
from .common import UTCZ, pick

YEARS = (1583, 1600, 1899, 1900, 1999, 2000, 2004, 2015, 2016, 2020, 2023, 2100, 9999)
TZS = (UTCZ, {"n": "Europe/Paris", "fo": 0}, {"n": "", "fo": 19800})


def date_forms(rnd, q):
    out = []
    for y in YEARS:
        for ext in (True, False):
            for (m, d) in ((1, 1), (2, 28), (2, 29), (2, 30), (4, 31), (12, 31), (13, 1), (0, 1), (6, 0)):
                out.append(form(dk="cal", ext=ext, y=y, m=m, d=d))
            for n in (0, 1, 31, 59, 60, 61, 365, 366, 367):
                out.append(form(dk="ord", ext=ext, y=y, n=n))
            for wk in (0, 1, 2, 52, 53, 54):
                out.append(form(dk="week", ext=ext, y=y, wk=wk))
                for wd in (0, 1, 4, 7, 8):
                    out.append(form(dk="weekd", ext=ext, y=y, wk=wk, wd=wd))
        out.append(form(dk="y", y=y))
        out.append(form(dk="ym", y=y, m=12))
        out.append(form(dk="ym", y=y, m=13))
    return out


def time_parts(rnd):
    fr = [[], [53], [48, 48, 49], [49, 50, 51, 52, 53, 54], [57] * 6, [49, 50, 51, 52, 53, 54, 55], [57] * 9, [48] * 8 + [49],
          [49, 50], [55, 48, 57, 49], [49, 50, 51, 52, 53], [48, 48, 48, 48, 55], [49, 50, 51, 52, 53, 54, 55, 56],     # every length 1..9
          [48 + rnd.randrange(10) for _ in range(5)], [48 + rnd.randrange(10) for _ in range(4)], [48 + rnd.randrange(10) for _ in range(2)],
          [48 + rnd.randrange(10) for _ in range(rnd.randrange(1, 10))]]
    out = [dict(tk="h", h=0), dict(tk="h", h=23), dict(tk="hm", h=0, mi=0), dict(tk="hm", h=23, mi=59), dict(tk="hm", h=24, mi=0),
           dict(tk="hms", h=24, mi=0, s=0), dict(tk="hms", h=12, mi=60, s=0), dict(tk="hms", h=12, mi=0, s=60)]
    for fd in fr:
        for fsep in (46, 44):
            out.append(dict(tk="hms", h=rnd.choice((0, 12, 23)), mi=rnd.choice((0, 30, 59)), s=rnd.choice((0, 1, 59)), fd=fd, fsep=fsep))
    return out


OFFS = [dict(ok="none"), dict(ok="z"), dict(ok="h", osg=1, oh=0), dict(ok="h", osg=-1, oh=23), dict(ok="h", osg=1, oh=14),
        dict(ok="hm", osg=1, oh=5, om=30), dict(ok="hm", osg=-1, oh=3, om=30), dict(ok="hm", osg=1, oh=23, om=59),
        dict(ok="hm", osg=-1, oh=23, om=59), dict(ok="hm", osg=1, oh=0, om=0), dict(ok="hm", osg=1, oh=24, om=0),
        dict(ok="hm", osg=-1, oh=1, om=60)]


def drive(ctx):
    q = ctx.quick()
    rnd = ctx.shared_rnd
    n = 0
    forms = date_forms(rnd, q)
    tps = time_parts(rnd)
    dates = [form(dk="cal", y=2016, m=2, d=29), form(dk="cal", y=1999, m=12, d=31), form(dk="ord", y=2015, n=365),
             form(dk="weekd", y=2015, wk=53, wd=4), form(dk="week", y=2020, wk=53), form(dk="cal", y=9999, m=12, d=31),
             form(dk="cal", y=1583, m=1, d=1), form(dk="cal", y=2023, m=2, d=29)]
    for d in dates:
        for t in tps:
            for o in OFFS:
                for ext in (True, False):
                    for sep in (84, 32):
                        f = dict(d)
                        f.update(t)
                        f.update(o)
                        f.update(ext=ext, sep=sep)
                        forms.append(f)
    for t in tps:
        if t["tk"] == "h":
            continue
        for o in OFFS[:1]:
            f = form(**t)
            f.update(o)
            forms.append(f)                # time only, extended format, no offset
    forms = ctx.mine(forms)
    if q:
        forms = rnd.sample(forms, min(len(forms), 450)) if False else pick(ctx.rnd, forms, 450)
    for f in forms:
        n += 1
        # the tz option applies only when the string carries no offset: an explicit offset (incl. Z / +00:00) wins
        ctx.emit("iso_parse", {"form": f, "exact": bool(n % 2), "tz": TZS[n % 3] if n % 3 != 0 or n % 4 == 0 else UTCZ})
    # whole years x six date forms
    years = list(range(1583, 10000))
    rot = ctx.seed % 40
    # one year of each of the 14 shapes (leap or common x weekday of 1 January): always, with every parser
    shapes = {}
    for y in range(2001, 2041):
        shapes.setdefault((calendar.isleap(y), calendar.weekday(y, 1, 1)), y)
    always = set(shapes.values())
    for y in ctx.mine(years):
        if q and not (y % 40 == rot or y in (1583, 1600, 1900, 2000, 2100, 9999) or y in always):
            continue
        for dk in ("cal", "ord", "weekd"):
            for ext in (True, False):
                for which in (("top", "py", "rs") if not q or y in always else (("top", "py", "rs")[(y + len(dk)) % 3],)):
                    if which == "rs" and ctx.backend == "py":
                        continue
                    ctx.emit("iso_year_scan", {"y": y, "dk": dk, "ext": ext, "which": which})
    # parse() inverts the renderers
    for k in range(150 if q else 3000):
        sec = ctx.rnd.randrange(-12219292800 + 86400 * 400, 253402300799 - 86400 * 400)   # 1583 .. 9999
        us = ctx.rnd.choice((0, 0, 1, 999999, 500000, 120000, ctx.rnd.randrange(1000000)))
        w = i3_to_wall(sec_to_i3(sec, us))
        fo = ctx.rnd.choice((0, 3600, -3600, 19800, -12600, 86340, -86340, 45900, ctx.rnd.randrange(-1439, 1440) * 60))
        zr = UTCZ if k % 3 == 0 else {"n": "", "fo": fo}
        for fmt in ("isoformat", "str", "iso8601", "rfc3339", "atom", "w3c"):
            ctx.emit("iso_roundtrip", {"fmt": fmt, "tz": TZS[(k + len(fmt)) % 3]}, [mk_dt(zr, w, 0)])
