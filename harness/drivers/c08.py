"""C08 - format() renders every token correctly and from_format() inverts it.
Every token x boundary values (hour 0/12/23, fraction widths, negative and :30/:45 offsets, three-part zone
names, day-of-year 1/59/60/365/366, ISO weekday), random token sequences with literal separators and
[escapes], the named to_*_string() compositions, localized names x all locales x 12 months x 7 weekdays;
from_format(format(x)) for complete formats, formats without a date (now), non-matching strings."""
from __future__ import annotations

from ..locales import names as locale_names
from ..proj import cps, mk_dt
from .common import NAIVE, UTCZ, pick

TOKENS = ["YYYY", "YY", "Y", "Q", "Qo", "MMMM", "MMM", "MM", "M", "Mo", "DDDD", "DDD", "DD", "D", "Do", "dddd", "ddd", "dd", "d", "E",
          "HH", "H", "hh", "h", "mm", "m", "ss", "s", "S", "SS", "SSS", "SSSS", "SSSSS", "SSSSSS", "A", "Z", "ZZ", "z", "zz", "X", "x"]
SEPS = [" ", "-", "/", ":", ".", ", ", "T", " | "]
NAMED = {"to_atom_string": ("atom", "YYYY-MM-DDTHH:mm:ssZ"), "to_w3c_string": ("w3c", "YYYY-MM-DDTHH:mm:ssZ"),
         "to_cookie_string": ("cookie", "dddd, DD-MMM-YYYY HH:mm:ss zz"), "to_rfc822_string": ("rfc822", "ddd, DD MMM YY HH:mm:ss ZZ"),
         "to_rfc850_string": ("rfc850", "dddd, DD-MMM-YY HH:mm:ss zz"), "to_rfc1036_string": ("rfc1036", "ddd, DD MMM YY HH:mm:ss ZZ"),
         "to_rfc1123_string": ("rfc1123", "ddd, DD MMM YYYY HH:mm:ss ZZ"), "to_rfc2822_string": ("rfc2822", "ddd, DD MMM YYYY HH:mm:ss ZZ"),
         "to_rss_string": ("rss", "ddd, DD MMM YYYY HH:mm:ss ZZ"), "to_datetime_string": ("datetime", "YYYY-MM-DD HH:mm:ss"),
         "to_date_string": ("date", "YYYY-MM-DD"), "to_time_string": ("time", "HH:mm:ss")}


def tok(t):
    return ["tok", t, cps(t)]


def lit(s):
    return ["lit", cps(s)]


def esc(s):
    return ["esc", cps(s)]


def tokenize(fmt):
    """split one of the documented named formats into items (longest token first)"""
    items, i = [], 0
    order = sorted(TOKENS, key=len, reverse=True)
    while i < len(fmt):
        for t in order:
            if fmt.startswith(t, i):
                items.append(tok(t))
                i += len(t)
                break
        else:
            j = i
            while j < len(fmt) and not any(fmt.startswith(t, j) for t in order):
                j += 1
            items.append(lit(fmt[i:j]))
            i = j
    return items


def values(rnd):
    zs = [UTCZ, {"n": "Europe/Paris", "fo": 0}, {"n": "America/Argentina/Buenos_Aires", "fo": 0}, {"n": "Asia/Kolkata", "fo": 0},
          {"n": "America/St_Johns", "fo": 0}, {"n": "Asia/Kathmandu", "fo": 0}, {"n": "", "fo": -34200}, {"n": "", "fo": 50400},
          {"n": "Pacific/Kiritimati", "fo": 0}, {"n": "America/New_York", "fo": 0}]
    walls = [[2000, 1, 1, 0, 0, 0, 0], [1999, 12, 31, 23, 59, 59, 999999], [2024, 2, 29, 12, 0, 0, 9], [2023, 3, 1, 13, 5, 7, 99999],
             [1000, 6, 15, 11, 59, 59, 500000], [9999, 12, 31, 1, 2, 3, 4000], [2016, 12, 31, 12, 30, 45, 123456],
             [2021, 1, 3, 0, 9, 9, 90], [1969, 7, 20, 20, 17, 40, 0], [2038, 1, 19, 3, 14, 8, 1]]
    out = []
    for w in walls:
        for z in pick(rnd, zs, 3):
            out.append(mk_dt(z, w, 0))
    return out


def drive(ctx):
    q = ctx.quick()
    rnd = ctx.rnd
    locs = locale_names()
    vals = values(rnd)
    n = 0
    for loc in ctx.mine(locs):
        ctx.emit("locale_tables", {"locale": loc, "scope": "ordinal"})      # the ordinal rule behind the Do token
    work = []
    for v in vals:
        for t in TOKENS:
            work.append(("tok", v, t))
    work = ctx.mine(work)
    for (_k, v, t) in work:
        n += 1
        loc = "en" if n % 3 else rnd.choice(locs)
        ctx.emit("format", dict({"items": [tok(t)], "locale": loc, "method": "format", "named": ""},
                                **({"via": "default"} if n % 4 == 0 else {})), [v])
    # ordinal tokens over the numbers on which the CLDR ordinal rules of en / fr / it / sv turn (documented: Do, Mo, Qo;
    # implemented but undocumented: DDDo, wo, do - judged as part of the specification's extension)
    import datetime as _dt

    for doy in ctx.mine([1, 2, 3, 8, 11, 12, 13, 21, 22, 23, 31, 80, 100, 101, 102, 103, 108, 111, 112, 113, 121, 122, 180, 201, 211, 301, 365]):
        d = _dt.date(2023, 1, 1) + _dt.timedelta(days=doy - 1)
        v = mk_dt(UTCZ, [d.year, d.month, d.day, 7, 8, 9, 0], 0)
        for loc in ("en", "fr", "it", "sv", "es", "nl"):
            for t in ("Do", "Mo", "Qo", "DDDo", "wo", "do"):
                ctx.emit("format", {"items": [tok(t)], "locale": loc, "method": "format", "named": ""}, [v])
    # zone abbreviations: the same zone at the same UTC offset under two different abbreviations (Moscow +04:00 is MSD
    # until 2010 and MSK in 2011-14; New York -04:00 is EDT, EWT, EPT), formatted one after the other in one process
    from ..proj import i3_to_wall

    for zn in ctx.mine(["Europe/Moscow", "America/New_York", "Asia/Pyongyang", "Europe/London", "America/Chicago", "Europe/Kiev",
                        "Asia/Tokyo", "Europe/Lisbon", "America/Sao_Paulo", "Asia/Manila", "Africa/Windhoek", "Europe/Minsk",
                        "Asia/Seoul", "America/Caracas", "Europe/Istanbul", "Asia/Dhaka"]):
        z = ctx.zones.get(zn)
        if not z:
            continue
        seen = {}
        done = 0
        for tr in z["trs"]:
            key = tr["off"]
            ab = tuple(tr["ab"])
            if key in seen and seen[key][0] != ab and done < 3:
                done += 1
                for at in (seen[key][1], tr["at"], seen[key][1]):
                    src = mk_dt(UTCZ, i3_to_wall([at[0], at[1], 0])[:6] + [0], 0)
                    x = ctx.emit("in_tz", {"tz": {"n": zn, "fo": 0}}, [src], log=False)
                    if not isinstance(x, Exception):
                        ctx.emit("format", {"items": [tok("zz"), lit(" "), tok("Z"), lit(" "), tok("z")], "locale": "en", "method": "format",
                                            "named": ""}, pre_objs=[x])
            seen.setdefault(key, (ab, tr["at"]))
            if seen[key][0] != ab:
                seen[key] = (ab, tr["at"])
    # aware values whose tzinfo is NOT a pendulum zone (raw constructor, fromisoformat, astimezone(stdlib tz)): the
    # offset tokens and the named helpers built on them
    foreign = [mk_dt({"n": "Europe/Paris", "fo": 0}, [2020, 7, 1, 12, 0, 0, 5], 0, zk="zoneinfo"),
               mk_dt({"n": "America/St_Johns", "fo": 0}, [2021, 1, 15, 23, 59, 59, 0], 0, zk="zoneinfo"),
               mk_dt({"n": "", "fo": -34200}, [2020, 7, 1, 12, 0, 0, 0], 0, zk="native-fixed"),
               mk_dt({"n": "", "fo": 50400}, [1999, 12, 31, 23, 0, 0, 0], 0, zk="native-fixed")]
    for v in ctx.mine(foreign):
        for t in ("Z", "ZZ"):
            ctx.emit("format", {"items": [tok("YYYY"), lit(" "), tok(t)], "locale": "en", "method": "format", "named": ""}, [v])
        for m in ("to_atom_string", "to_rfc822_string", "to_rfc2822_string", "to_rss_string", "to_w3c_string"):
            name, fmt = NAMED[m]
            ctx.emit("format", {"items": tokenize(fmt), "locale": "en", "method": m, "named": name}, [v])
    # random token sequences with separators and escapes
    for k in range(400 if q else 2500):
        items = []
        for j in range(rnd.randrange(2, 7)):
            items.append(tok(rnd.choice(TOKENS)))
            # adjacent tokens would merge into other tokens: always separate them
            if rnd.random() < 0.7:
                items.append(lit(rnd.choice(SEPS)))
            else:
                items.append(esc(rnd.choice(["at", "T", "Day", "YYYY", "o'clock", "le", "week W", "h"])))
        v = rnd.choice(vals)
        ctx.emit("format", {"items": items, "locale": rnd.choice(locs) if k % 2 else "en", "method": "format", "named": ""}, [v])
    # named formats
    for (vi, v) in enumerate(ctx.mine(vals)):
        for m, (name, fmt) in NAMED.items():
            ctx.emit("format", {"items": tokenize(fmt), "locale": "en", "method": m, "named": name}, [v])
            if vi % 3 == 0:       # with another process-wide default locale in force
                ctx.emit("format", {"items": tokenize(fmt), "locale": "en", "method": m, "named": name, "proc_locale": ("fr", "ru", "de")[vi % 3]}, [v])
    # localized names: every locale x 12 months x 7 weekdays
    for loc in ctx.mine(locs):
        for month in range(1, 13):
            v = mk_dt(UTCZ, [2023, month, 1 + (month * 3) % 7, 15, 0, 0, 0], 0)
            ctx.emit("format", dict({"items": [tok("MMMM"), lit(" "), tok("MMM"), lit(" "), tok("Mo"), lit(" "), tok("A")], "locale": loc,
                                     "method": "format", "named": ""}, **({"via": "default"} if month % 3 == 0 else {})), [v])
        for d in range(1, 8):
            v = mk_dt(UTCZ, [2024, 1, d, 9, 0, 0, 0], 0)
            ctx.emit("format", {"items": [tok("dddd"), lit(" "), tok("ddd"), lit(" "), tok("dd"), lit(" "), tok("Do"), lit(" "), tok("A")],
                                "locale": loc, "method": "format", "named": ""}, [v])
        for f in ("LT", "LTS", "L", "LL", "LLL", "LLLL"):
            pass  # locale date formats are compositions defined by the locale data itself (not judged)
        # from_format round trips with localized month / day names
        for month in (1, 5, 12) if q else range(1, 13):
            v = mk_dt(UTCZ, [2023, month, 17, 14, 5, 9, 123456], 0)
            for mt in ("MMMM", "MMM"):
                items = [tok("YYYY"), lit(" "), tok(mt), lit(" "), tok("DD"), lit(" "), tok("HH"), lit(":"), tok("mm"), lit(":"), tok("ss"),
                         lit("."), tok("SSSSSS"), lit(" "), tok("Z")]
                ctx.emit("from_format", {"items": items, "locale": loc, "kind": "roundtrip", "now": [2020, 6, 15, 12, 0, 0, 0]}, [v])
    # from_format: complete formats over values x offsets, formats without a date, mismatches
    COMPLETE = [
        [tok("YYYY"), lit("-"), tok("MM"), lit("-"), tok("DD"), lit("T"), tok("HH"), lit(":"), tok("mm"), lit(":"), tok("ss"), lit("."),
         tok("SSSSSS"), tok("Z")],
        [tok("Y"), lit("/"), tok("M"), lit("/"), tok("D"), lit(" "), tok("H"), lit(":"), tok("m"), lit(":"), tok("s"), lit(" "), tok("SSSSSS"),
         lit(" "), tok("ZZ")],
        [tok("DD"), lit("."), tok("MM"), lit("."), tok("YYYY"), lit(" "), tok("hh"), lit(":"), tok("mm"), lit(":"), tok("ss"), lit(" "), tok("A"),
         lit(" "), tok("SSSSSS"), lit(" "), tok("z")],
        [tok("YYYY"), lit("-"), tok("MM"), lit("-"), tok("DD"), lit(" "), esc("at"), lit(" "), tok("HH"), lit(":"), tok("mm"), lit(":"), tok("ss"),
         lit("."), tok("SSSSSS"), lit(" "), tok("Z")],
    ]
    COMPLETE.append([tok("YYYY"), lit("-"), tok("DDDD"), lit(" "), tok("HH"), lit(":"), tok("mm"), lit(":"), tok("ss"), lit("."), tok("SSSSSS"),
                     lit(" "), tok("Z")])              # year + day of the year is a full date too
    COMPLETE.append([tok("DDD"), lit("/"), tok("Y"), lit(" "), tok("H"), lit(":"), tok("m"), lit(":"), tok("s"), lit(" "), tok("SSSSSS"), lit(" "),
                     tok("ZZ")])
    # a day name (or ISO weekday number) next to a full date, parsed under several week configurations
    DAYNAME = [[tok(dn), lit(", "), tok("YYYY"), lit("-"), tok("MM"), lit("-"), tok("DD"), lit(" "), tok("HH"), lit(":"), tok("mm"), lit(":"),
                tok("ss"), lit("."), tok("SSSSSS"), lit(" "), tok("Z")] for dn in ("dddd", "ddd", "E")]
    for (vi, v) in enumerate(ctx.mine(vals)):
        if v["z"]["n"] == "naive":
            continue
        for (di, items) in enumerate(DAYNAME):
            for wc in (None, {"ws": 6, "we": 5}, {"ws": 5, "we": 4}, {"ws": 2, "we": 1}):
                if q and (vi + di + (wc or {"ws": 0})["ws"]) % 2:
                    continue
                a_ = {"items": items, "locale": ("en", "fr", "de")[di] if wc else "en", "kind": "roundtrip", "now": [2020, 6, 15, 12, 0, 0, 0]}
                if wc:
                    a_["wcfg"] = wc
                ctx.emit("from_format", a_, [v])
    for v in ctx.mine(vals):
        if v["z"]["n"] == "naive":
            continue
        for (ci, items) in enumerate(COMPLETE):
            if ci >= 4:                                # `now` in a leap and in a common year: the parsed year must decide
                for ny in (2020, 2021):
                    ctx.emit("from_format", {"items": items, "locale": "en", "kind": "roundtrip", "now": [ny, 6, 15, 12, 0, 0, 0]}, [v])
                continue
            ctx.emit("from_format", {"items": items, "locale": "en", "kind": "roundtrip", "now": [2020, 6, 15, 12, 0, 0, 0]}, [v])
            ctx.emit("from_format", {"items": items, "locale": "en", "kind": "mismatch", "mutate": rnd.randrange(40),
                                     "now": [2020, 6, 15, 12, 0, 0, 0]}, [v])
            ctx.emit("from_format", {"items": items, "locale": "en", "kind": "mismatch", "mutate": (-1, -2, -3)[ci % 3],
                                     "now": [2020, 6, 15, 12, 0, 0, 0]}, [v])
        ctx.emit("from_format", {"items": [tok("HH"), lit(":"), tok("mm"), lit(":"), tok("ss")], "locale": "en", "kind": "partial",
                                 "now": [2020 + n % 7, 1 + n % 12, 1 + n % 28, 12, 0, 0, 0]}, [v])
