"""C09 - Duration normalisation is consistent with timedelta and with itself.
Boundary tuples (each component in {0, +-1, +-(unit-1), +-unit, +-10^6}, sign-cancelling combinations),
random mixed-sign tuples, large whole-second totals up to 10^9 days; every result is rebuilt from its
own components."""
from __future__ import annotations

import itertools

KEYS = ("y", "mo", "w", "d", "h", "mi", "s", "ms", "us")
UNIT = {"y": 1, "mo": 12, "w": 52, "d": 7, "h": 24, "mi": 60, "s": 60, "ms": 1000, "us": 1000000}


def zero():
    return {k: 0 for k in KEYS}


def boundary_values(k):
    u = UNIT[k]
    vals = {0, 1, -1, u - 1, -(u - 1), u, -u, u + 1, 1000000, -1000000}
    return sorted(vals)


def emit(ctx, args, n):
    # the lazily derived components are read in a different order on every third object
    first = ((), ("minutes",), ("remaining_seconds", "minutes", "hours"))[n % 3]
    r = ctx.emit("dur_new", {"args": args, "how": "new", "entry": ("Duration", "duration")[n % 2], "first": list(first)})
    if isinstance(r, dict) and r.get("k") == "dur":
        comp = {"y": r["years"], "mo": r["months"], "w": r["weeks"], "d": r["remaining_days"], "h": r["hours"],
                "mi": r["minutes"], "s": r["remaining_seconds"], "ms": 0, "us": r["microseconds"]}
        if all(abs(v) < 2 ** 31 for v in comp.values()):
            ctx.emit("dur_new", {"args": comp, "how": "rebuilt", "orig": {k: r[k] for k in (
                "r3", "years", "months", "weeks", "remaining_days", "hours", "minutes", "remaining_seconds",
                "microseconds")}})


def drive(ctx):
    q = ctx.quick()
    rnd = ctx.rnd
    n = 0
    # pairs of components at boundary values (all other components zero), incl. sign-cancelling ones
    pairs = list(itertools.combinations(KEYS, 2))
    work = []
    for (k1, k2) in pairs:
        for v1 in boundary_values(k1):
            for v2 in boundary_values(k2):
                work.append((k1, v1, k2, v2))
    work = ctx.mine(work)
    if q:
        work = rnd.sample(work, min(len(work), 500))
    for (k1, v1, k2, v2) in work:
        a = zero()
        a[k1], a[k2] = v1, v2
        n += 1
        emit(ctx, a, n)
    # sign-cancelling triples: +1 day -24 h +/- 1 us etc.
    cancel = [dict(zero(), d=1, h=-24), dict(zero(), d=1, h=-24, us=-1), dict(zero(), d=-1, h=24, us=1),
              dict(zero(), w=1, d=-7), dict(zero(), w=-1, d=7, s=-1), dict(zero(), h=1, mi=-60), dict(zero(), mi=1, s=-61),
              dict(zero(), s=1, ms=-1000), dict(zero(), s=-1, ms=999, us=999), dict(zero(), ms=1, us=-1000),
              dict(zero(), y=1, d=-365), dict(zero(), mo=1, d=-30, us=-1), dict(zero(), y=-1, mo=12, d=5),
              dict(zero(), y=2, mo=-25, w=3, d=-22, h=47, mi=-61, s=3599, ms=-1, us=1000001)]
    for a in ctx.mine(cancel):
        n += 1
        emit(ctx, a, n)
    # random mixed-sign tuples inside the float-exact range, and large whole-second totals
    for k in range(250 if q else 4000):
        a = zero()
        m = k % 3
        if m == 0:
            for key in KEYS:
                if rnd.random() < 0.6:
                    a[key] = rnd.randrange(-UNIT[key] * 3, UNIT[key] * 3 + 1)
        elif m == 1:
            a.update(y=rnd.randrange(-100, 101), mo=rnd.randrange(-500, 501), w=rnd.randrange(-2000, 2001),
                     d=rnd.randrange(-20000, 20001), h=rnd.randrange(-10 ** 5, 10 ** 5), mi=rnd.randrange(-10 ** 6, 10 ** 6),
                     s=rnd.randrange(-10 ** 7, 10 ** 7), ms=rnd.randrange(-10 ** 8, 10 ** 8), us=rnd.randrange(-10 ** 9, 10 ** 9))
        else:
            a.update(y=rnd.randrange(-10 ** 5, 10 ** 5), mo=rnd.randrange(-10 ** 6, 10 ** 6), w=rnd.randrange(-10 ** 6, 10 ** 6),
                     d=rnd.randrange(-10 ** 8, 10 ** 8), h=rnd.randrange(-10 ** 6, 10 ** 6), mi=rnd.randrange(-10 ** 6, 10 ** 6),
                     s=rnd.randrange(-10 ** 9, 10 ** 9), ms=1000 * rnd.randrange(-10 ** 5, 10 ** 5),
                     us=1000000 * rnd.randrange(-1000, 1000))
        n += 1
        emit(ctx, a, n)
