"""C10 - Duration arithmetic agrees with timedelta arithmetic.
Operand pairs (Duration, Duration | timedelta | int | float) with either sign and on either side; ties
of round-half-even division; comparison and hashing; component-wise action on years and months."""
from __future__ import annotations

KEYS = ("y", "mo", "w", "d", "h", "mi", "s", "ms", "us")


def dur(**kw):
    a = {k: 0 for k in KEYS}
    a.update(kw)
    return {"k": "dur", "args": a}


def td(d=0, s=0, us=0):
    return {"k": "td", "r": [d, s, us]}


def operands(rnd, small=False):
    """a mix of boundary and random operands without years/months"""
    out = [dur(s=1), dur(s=-1), dur(us=1), dur(us=-1), dur(us=3), dur(us=-3), dur(d=1), dur(d=-1, us=1),
           dur(h=23, mi=59, s=59, us=999999), dur(w=1, d=-7, us=5), dur(s=90, us=500000), dur(ms=1, us=-1),
           dur(s=7, us=500000), dur(s=-7, us=-500000), dur(us=2), dur(us=5), dur(us=15), dur(s=1800)]
    for _ in range(6):
        if small:
            out.append(dur(s=rnd.randrange(-990, 990), us=rnd.randrange(-999999, 10 ** 6)))
        else:
            out.append(dur(d=rnd.randrange(-3000, 3000), s=rnd.randrange(-86399, 86400), us=rnd.randrange(-999999, 10 ** 6)))
    return out


def as_td(v):
    """the plain-timedelta twin of a duration operand (same constructor arguments)"""
    import datetime as _dt

    a = v["args"]
    t = _dt.timedelta(weeks=a["w"], days=a["d"], hours=a["h"], minutes=a["mi"], seconds=a["s"], milliseconds=a["ms"],
                      microseconds=a["us"])
    return td(t.days, t.seconds, t.microseconds)


def drive(ctx):
    q = ctx.quick()
    rnd = ctx.rnd
    xs = operands(rnd)
    ys = operands(rnd)
    n = 0
    work = [(x, y) for x in xs for y in ys]
    work = ctx.mine(work)
    if q:
        work = rnd.sample(work, min(len(work), 14))
    ints = [1, -1, 2, -2, 3, 7, -7, 10, 1000, -2000, 6]
    floats = [(1, 2), (-1, 2), (3, 2), (5, 4), (-7, 8), (1, 1024), (2000, 1), (3, 1), (1999, 1024), (-15, 16), (1, 4)]
    for (x, y) in work:
        for yy in (y, as_td(y)):
            for o in ("add", "sub", "cmp"):
                ctx.emit("dur_op", {"o": o}, [x, yy])
            ctx.emit("dur_op", {"o": "sub"}, [as_td(x), y])               # timedelta - Duration
            ctx.emit("dur_op", {"o": "radd"}, [x, as_td(y)])              # timedelta + Duration
            ctx.emit("dur_op", {"o": "cmp"}, [as_td(x), y]) if False else None
        n += 1
        ctx.emit("dur_op", {"o": "neg"}, [x])
        ctx.emit("dur_op", {"o": "abs"}, [x])
        for k in (ints if not q else rnd.sample(ints, 3)):
            for o in ("mul_int", "rmul_int", "truediv_int", "floordiv_int"):
                ctx.emit("dur_op", {"o": o, "n": k}, [x])
        for (num, den) in (floats if not q else rnd.sample(floats, 3)):
            for o in ("mul_float", "rmul_float", "truediv_float"):
                ctx.emit("dur_op", {"o": o, "num": num, "den": den}, [x])
    # comparisons, equality and hash of very long durations one microsecond apart (beyond the precision of a float
    # total_seconds()), against Durations and plain timedeltas, on either side
    for days in ctx.mine([99420, 150000, 999999, -999999, 3650000, -120000, 20000000]):
        for (u1, u2) in ((0, 1), (1, 0), (5, 5), (999999, 999998), (-1, 0)):
            x, y = dur(d=days, s=3, us=u1), dur(d=days, s=3, us=u2)
            ctx.emit("dur_op", {"o": "cmp"}, [x, y])
            ctx.emit("dur_op", {"o": "cmp"}, [x, as_td(y)])
            ctx.emit("dur_op", {"o": "sub"}, [x, y])
            ctx.emit("dur_op", {"o": "add"}, [x, as_td(y)])
    # multiplication by floats that are NOT dyadic (0.1, 1.1, 1/3, ...): the exact value of the float decides, to the
    # last microsecond and on ties
    FX = ["0.1", "1.1", "0.3", "-0.7", "2.5e-07", "0.3333333333333333", "1e-06", "123456.789", "0.5", "1.0000000000000002", "-1e-09",
          "0.05", "1.5", "3.0000001", "0.9999999999999999", "1e+03"]
    fxs = [dur(us=5), dur(us=15), dur(us=25), dur(us=-5), dur(s=1), dur(us=1), dur(us=3), dur(d=1), dur(s=7, us=500000), dur(d=40000, us=1),
           dur(h=23, mi=59, s=59, us=999999), dur(d=-3, us=7)] + operands(rnd)[-4:]
    work = ctx.mine([(x, f) for x in fxs for f in FX])
    for (x, f) in (rnd.sample(work, min(len(work), 14)) if q else work):
        ctx.emit("dur_op", {"o": "mul_floatx", "f": f}, [x])
        ctx.emit("dur_op", {"o": "rmul_floatx", "f": f}, [x])
    # duration (/) duration on operands that fit the limb bounds: sub-2000 s microsecond values and whole seconds
    sx = operands(rnd, small=True)
    sy = operands(rnd, small=True)
    whole = [dur(s=1), dur(s=-1), dur(s=7), dur(d=1), dur(d=-3, s=5), dur(h=5), dur(d=11000), dur(s=-86399),
             dur(d=rnd.randrange(-11000, 11000), s=rnd.randrange(86400))]
    pairs = ctx.mine([(x, y) for x in sx for y in sy] + [(x, y) for x in whole for y in whole])
    if q:
        pairs = rnd.sample(pairs, min(len(pairs), 20))
    for (x, y) in pairs:
        for yy in (y, as_td(y)):
            for o in ("floordiv_dur", "mod_dur", "divmod_dur"):
                ctx.emit("dur_op", {"o": o}, [x, yy])
    # history: a division by a Duration WITH years / months (outside the statement, executed all the same), then the same
    # division by the plain timedelta and by the Duration of the same native length
    for (yy, mm, dd) in ((1, 0, 1), (0, 1, 0), (2, 0, 0), (0, 13, 5), (-1, 0, -1)):
        length = 365 * yy + 30 * mm + dd
        for x in (dur(d=732), dur(d=-1000, s=5), dur(d=61), dur(d=400)):
            for o in ("floordiv_dur", "mod_dur", "divmod_dur"):
                ctx.emit("dur_op", {"o": o}, [x, dur(y=yy, mo=mm, d=dd)])
                ctx.emit("dur_op", {"o": o}, [x, td(length, 0, 0)])
                ctx.emit("dur_op", {"o": o}, [x, dur(d=length)])
    # true division where the quotient is a small dyadic rational: x = y * k / 2^j
    for k in range(60 if q else 600):
        yus = rnd.choice((1, 3, 1000, 999, 1024, 500000)) * rnd.choice((1, -1))
        num = rnd.randrange(-64, 65)
        den = rnd.choice((1, 2, 4, 8, 16))
        if (yus * num) % den:
            continue
        xus = yus * num // den
        x, y = dur(us=xus), dur(us=yus)
        ctx.emit("dur_op", {"o": "truediv_dur"}, [x, y])
        ctx.emit("dur_op", {"o": "truediv_dur"}, [x, as_td(y)])
    # years and months: negation and integer scaling act component-wise
    for k in range(12 if q else 100):
        x = dur(y=rnd.randrange(-5, 6), mo=rnd.randrange(-14, 15), d=rnd.randrange(-3, 4), s=rnd.randrange(-5, 6))
        ctx.emit("dur_op", {"o": "neg"}, [x])
        for m in (2, -3, 0, 1):
            ctx.emit("dur_op", {"o": "mul_int", "n": m}, [x])
            ctx.emit("dur_op", {"o": "rmul_int", "n": m}, [x])
    # an Interval delegates its arithmetic to as_duration(): same operators on the exact length of the interval
    from ..proj import i3_to_wall, mk_dt, sec_to_i3
    from .common import FIXED_OFFSETS, HI, LO, NAIVE, UTCZ, real_zone_names

    names = real_zone_names(ctx)
    AOPS = ("mul_int", "rmul_int", "floordiv_int", "truediv_int", "add_td", "radd_td", "sub_td", "as_duration", "rsub_td")
    for k in range(160 if q else 4000):
        s1 = rnd.randrange(LO + 86400 * 20000, HI - 86400 * 20000)
        s2 = s1 + rnd.choice((1, -1)) * rnd.choice((rnd.randrange(3), rnd.randrange(86400 * 3), rnd.randrange(86400 * 900),
                                                    86400 * rnd.randrange(15000)))
        w1 = i3_to_wall(sec_to_i3(s1, rnd.choice((0, 1, 999999, rnd.randrange(1000000)))))
        w2 = i3_to_wall(sec_to_i3(s2, rnd.choice((0, 1, 999999, rnd.randrange(1000000)))))
        m = k % 5
        if m == 0:
            pr = [{"k": "date", "w": w1[:3], "cls": "Date"}, {"k": "date", "w": w2[:3], "cls": "Date"}]
        elif m == 1:
            pr = [mk_dt(NAIVE, w1, 0), mk_dt(NAIVE, w2, 0)]
        elif m == 2:
            pr = [mk_dt(UTCZ, w1, 0), mk_dt(UTCZ, w2, 0)]
        elif m == 3:
            fo = {"n": "", "fo": rnd.choice(FIXED_OFFSETS)}
            pr = [mk_dt(fo, w1, 0), mk_dt(fo, w2, 0)]
        else:
            pr = [mk_dt({"n": rnd.choice(names), "fo": 0}, w1, 0), mk_dt({"n": rnd.choice(names), "fo": 0}, w2, 1)]
        if k % 7 == 0:
            # same zone, end-points on different days across a change of offset
            from .common import zone_transitions

            zn = rnd.choice(names)
            trs = [t for t in zone_transitions(ctx, zn) if LO + 86400 * 20000 < t[0] < HI - 86400 * 20000]
            if trs:
                (sec, b_, a_) = rnd.choice(trs)
                z = {"n": zn, "fo": 0}
                pr = [mk_dt(z, i3_to_wall(sec_to_i3(sec - 86400 * rnd.randrange(1, 6) - 7000 + b_, 5)), 0),
                      mk_dt(z, i3_to_wall(sec_to_i3(sec + 86400 * rnd.randrange(1, 6) + 9000 + a_, 0)), 1)]
                if k % 2:
                    pr.reverse()
        o = AOPS[(k // 5) % len(AOPS)]
        ctx.emit("iv_arith", {"o": o, "abs": bool(k % 3 == 0), "n": rnd.choice((2, 3, -2, 7, -1, 1000)) if "div" not in o else
                              rnd.choice((2, 3, -2, 7, 10)), "d": rnd.randrange(-3, 4), "s": rnd.randrange(86400),
                              "us": rnd.choice((0, 1, 999999, 500000))}, pr)
