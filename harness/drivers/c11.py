"""C11 - DateTime, Date and Time are drop-in replacements for the native classes.
DateTime / Date / Time values from the transition enumeration (both folds) and random, each with its native
twin (zoneinfo tzinfo, same fold); all pairs for the binary operators including pairs in different zones and
around transitions; the type of every returned date / time / datetime."""
from __future__ import annotations

from ..proj import i3_to_wall, mk_dt, sec_to_i3
from .common import FIXED_OFFSETS, HI, LO, NAIVE, UTCZ, pick, real_zone_names, zone_transitions


def local_wall(sec, off, us=0):
    return i3_to_wall(sec_to_i3(sec + off, us))


def drive(ctx):
    q = ctx.quick()
    full = ctx.backend == "rs" or not q
    rnd = ctx.rnd
    names = real_zone_names(ctx)
    pool = rnd.sample(names, 5)
    n = 0
    for zn in ctx.mine(names):
        zr = {"n": zn, "fo": 0}
        trs = zone_transitions(ctx, zn)
        for (sec, b, a) in pick(rnd, trs, (3 if full else 1) if q else 25):
            g = abs(a - b) or 3600
            pts = [(sec - g - 5, b), (sec - 1, b), (sec, a), (sec + g // 2, a), (sec + 86400 * 100, a)]
            vals = []
            for (s, off) in pts:
                if LO < s < HI:
                    w = local_wall(s, off, (s * 13) % 1000000)
                    for f in (0, 1):
                        vals.append(mk_dt(zr, w, f))
            for v in vals:
                ctx.emit("native_acc", {}, [v])
            pairs = [(x, y) for x in vals for y in vals]
            for (x, y) in pick(rnd, pairs, 6 if q else 30):
                n += 1
                if n % 3 == 0:
                    y = dict(y, z={"n": rnd.choice(pool), "fo": 0})
                elif n % 3 == 1:
                    y = dict(y, z={"n": "", "fo": rnd.choice(FIXED_OFFSETS)}, zk="fixed")
                ctx.emit("native_cmp", {"share": n % 3 == 2}, [x, y])
    # instants within hours of the Unix epoch with awkward microseconds (float timestamps round there), in UTC and in zones
    if ctx.i == 0:
        for w in ([1969, 12, 31, 23, 59, 59, 999999], [1970, 1, 1, 0, 0, 0, 1], [1969, 12, 31, 22, 0, 0, 700001], [1970, 1, 1, 1, 59, 59, 999999],
                  [1969, 12, 31, 23, 59, 58, 123457], [1970, 1, 1, 0, 0, 1, 300000], [1969, 12, 31, 12, 0, 0, 5]):
            for z in (UTCZ, {"n": "Europe/Paris", "fo": 0}, {"n": "America/New_York", "fo": 0}, {"n": "", "fo": -1800}):
                ctx.emit("native_acc", {}, [mk_dt(z, w, 0)])
    for k in range(150 if q else 3000):
        s = rnd.randrange(LO, HI)
        w = i3_to_wall(sec_to_i3(s, rnd.choice((0, 1, 999999, rnd.randrange(1000000)))))
        m = k % 5
        if m == 0:
            ctx.emit("native_acc", {}, [{"k": "date", "w": w[:3], "cls": "Date"}])
        elif m == 1:
            ctx.emit("native_acc", {}, [{"k": "time", "w": w[3:], "cls": "Time"}])
            ctx.emit("native_acc", {}, [{"k": "time", "w": w[3:], "cls": "Time", "z": {"n": "", "fo": rnd.choice(FIXED_OFFSETS)},
                                         "zk": "fixed"}])
        elif m == 2:
            ctx.emit("native_acc", {}, [mk_dt(NAIVE, w, k % 2)])
            w2 = i3_to_wall(sec_to_i3(s + rnd.randrange(-10 ** 6, 10 ** 6), 5))
            ctx.emit("native_cmp", {}, [mk_dt(NAIVE, w, 0), mk_dt(NAIVE, w2, 0)])
            # a naive value against an aware one, either way round
            aw = mk_dt({"n": rnd.choice(pool), "fo": 0} if k % 2 else UTCZ, w2, 0)
            ctx.emit("native_cmp", {}, [mk_dt(NAIVE, w, 0), aw])
            ctx.emit("native_cmp", {}, [aw, mk_dt(NAIVE, w, 0)])
        elif m == 3:
            ctx.emit("native_acc", {}, [mk_dt({"n": "", "fo": rnd.choice(FIXED_OFFSETS + [rnd.randrange(-86399, 86400)])}, w, 0)])
        else:
            ctx.emit("native_acc", {}, [mk_dt(UTCZ, w, 0)])
            ctx.emit("native_cmp", {}, [mk_dt(UTCZ, w, 0), mk_dt({"n": rnd.choice(pool), "fo": 0}, w, 0)])
