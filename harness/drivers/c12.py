"""C12 - start_of/end_of delimit exactly the calendar unit that contains the value.
Stimuli: values on the days of every gap/overlap of the tz data (days whose midnight or last second is
skipped or repeated come out of this enumeration), obtained in different ways (raw fold 0 / fold 1,
converted from UTC) x 9 units x the 7 consistent week configurations; idempotence on the threaded result;
Dates; naive and UTC values over the calendar."""
from __future__ import annotations

from ..proj import i3_to_wall, mk_dt, sec_to_i3
from .common import HI, LO, NAIVE, UTCZ, anomalies, pick, real_zone_names, synth_zone_names, utc_dt, wall_of_localsec

UNITS = ("second", "minute", "hour", "day", "week", "month", "year", "decade", "century")
DUNITS = ("day", "week", "month", "year", "decade", "century")


def cfg(k):
    ws = k % 7
    return {"ws": ws, "we": (ws + 6) % 7}


def drive(ctx):
    from .. import suite

    suite.trace_suite(ctx)      # the repository's own tests, recorded by the external tracer
    from .. import gr

    gr.replay(ctx)          # behaviours of the Session state machine, real objects threaded
    q = ctx.quick()
    full = ctx.backend == "rs" or not q
    rnd = ctx.rnd
    n = 0
    for zn in ctx.mine(real_zone_names(ctx)) + ctx.mine(synth_zone_names(ctx)):
        zr = {"n": zn, "fo": 0}
        an = anomalies(ctx, zn)
        # days whose midnight / last second is touched first, then a sample of the others
        edge = [x for x in an if (x[1] % 86400) in (0,) or (x[2] % 86400) in (0,)]
        rest = [x for x in an if x not in edge]
        sel = pick(rnd, edge, (3 if full else 1) if q else 8) + pick(rnd, rest, 1 if q else 4)
        for (kind, ws, we, sec, b, a) in sel:
            # local readings: inside the anomaly, just outside, noon of that day, noon the day after
            day0 = ws - ws % 86400
            locals_ = [(ws, 0), ((ws + we) // 2, 5), (we - 1, 999999), (we, 0), (ws - 1, 999999),
                       (day0 + 43200, 0), (day0 + 86400 + 43200, 0), (day0 - 43200, 0),
                       # earlier and later days of the same week (the week walks day by day through the anomaly)
                       (day0 - 86400 * 3 + 40000, 0), (day0 - 86400 * 5 + 3000, 7), (day0 + 86400 * 4 + 50000, 0)]
            for (ls, us) in (pick(rnd, locals_, 4) if q else locals_):
                w = wall_of_localsec(ls, us)
                if not (103 < w[0] < 9897):
                    continue
                srcs = []
                for f in (0, 1):
                    srcs.append(("raw%d" % f, mk_dt(zr, w, f), None))
                # the same instant obtained by conversion (real object, fold as the conversion sets it)
                utc_sec = ls - (a if ls >= sec + a else b)
                if LO < utc_sec < HI:
                    conv = ctx.emit("in_tz", {"tz": zr}, [utc_dt(sec_to_i3(utc_sec, us))])
                    if not isinstance(conv, Exception):
                        srcs.append(("conv", None, conv))
                far = abs(ls - day0) > 86400 * 2
                for (how, val, obj) in srcs:
                    for u in ((["week"] + pick(rnd, UNITS, 1) if far else pick(rnd, UNITS, 3)) if q else UNITS):
                        n += 1
                        for opn in ("start_of", "end_of"):
                            args = {"unit": u, "cfg": cfg(n if u == "week" else 0), "how": how}
                            if obj is None:
                                r = ctx.emit(opn, args, [val])
                            else:
                                r = ctx.emit(opn, args, pre_objs=[obj])
                            if not isinstance(r, Exception) and n % 3 == 0:
                                ctx.emit(opn, dict(args, how="again"), pre_objs=[r])     # idempotence
    # calendar sweep: UTC / naive / fixed offset values and Dates, every unit, every week configuration
    for k in range(400 if q else 6000):
        sec = rnd.randrange(LO + 86400 * 40000, HI - 86400 * 40000)
        w = i3_to_wall(sec_to_i3(sec, rnd.choice((0, 1, 999999, rnd.randrange(1000000)))))
        if k % 5 == 0:
            w[1:3] = rnd.choice(((12, 31), (1, 1), (2, 28), (3, 1), (10, 31)))
        if k % 7 == 0:
            w[0] = rnd.choice((1900, 1999, 2000, 2001, 2009, 2010, 2100, 2400))
            if w[1:3] == [2, 29]:
                w[2] = 28
        zr = (UTCZ, NAIVE, {"n": "", "fo": rnd.randrange(-86399, 86400)})[k % 3]
        u = UNITS[k % 9]
        # values inside the first / last second of a day with a sub-second part
        if k % 4 == 0:
            for tm in ([0, 0, 0, 500000], [0, 0, 0, 1], [23, 59, 59, 1], [0, 0, 59, 999999], [0, 59, 0, 7]):
                wv = w[:3] + tm
                for opn in ("start_of", "end_of"):
                    ctx.emit(opn, {"unit": UNITS[(k // 4) % 9], "cfg": cfg(k), "how": "raw0"}, [mk_dt(zr, wv, 0)])
                    ctx.emit(opn, {"unit": "day", "cfg": cfg(0), "how": "raw0"}, [mk_dt(zr, wv, 0)])
        # the two setters are called in either order, or only one of them (the other bound keeps its default)
        order = ("se", "es", "s", "e", "SE", "ES")[k % 6]

        def oc(c):
            return {"ws": c["ws"], "we": 6} if order == "s" else ({"ws": 0, "we": c["we"]} if order == "e" else c)

        # values placed ON the configured first / last day of the week (the boundary cases of the week walk)
        if k % 5 == 0:
            import datetime as _dt2

            c0 = oc(cfg(k))
            d0 = _dt2.date(w[0], w[1], min(w[2], 28))
            for target in (c0["ws"], c0["we"]):
                d1 = d0 + _dt2.timedelta(days=(target - d0.weekday()) % 7)
                for opn in ("start_of", "end_of"):
                    ctx.emit(opn, {"unit": "week", "cfg": c0, "how": "date", "order": order}, [{"k": "date", "w": [d1.year, d1.month, d1.day], "cls": "Date"}])
                    ctx.emit(opn, {"unit": "week", "cfg": c0, "how": "raw0", "order": order}, [mk_dt(zr, [d1.year, d1.month, d1.day] + w[3:], 0)])

        for opn in ("start_of", "end_of"):
            ctx.emit(opn, {"unit": u, "cfg": oc(cfg(k // 9)), "how": "raw0", "order": order}, [mk_dt(zr, w, 0)])
            du = DUNITS[k % 6]
            ctx.emit(opn, {"unit": du, "cfg": oc(cfg(k // 6)), "how": "date", "order": order}, [{"k": "date", "w": w[:3], "cls": "Date"}])
            if k % 3 == 0:       # weeks in particular
                ctx.emit(opn, {"unit": "week", "cfg": oc(cfg(k)), "how": "raw0", "order": order}, [mk_dt(zr, w, 0)])
                ctx.emit(opn, {"unit": "week", "cfg": oc(cfg(k + 1)), "how": "date", "order": order}, [{"k": "date", "w": w[:3], "cls": "Date"}])
