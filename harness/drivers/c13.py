"""C13 - ISO 8601 durations and intervals parse to their exact value.
Component subsets x values {0, 1, 9, 10^k - 1 up to 10 digits} x fraction strings of 1..9 digits on each
admissible unit x '.' / ',' ; ill-formed strings of the classes the property names (out of order, fractional
years / months) and numbers too large to represent; the three interval forms."""
from __future__ import annotations

import itertools

from ..proj import cps
from .common import pick

DATE = ("Y", "M", "W", "D")
TIME = ("H", "M", "S")
VALUES = ("0", "1", "9", "10", "99", "100", "999", "1000", "9999", "65535", "65536", "99999", "999999", "9999999", "99999999",
          "999999999", "2147483647", "2147483648", "4294967295", "4294967296", "9999999999", "007")
FRACS = ("5", "25", "75", "125", "999", "0001", "50000", "999999", "1234567", "99999999", "123456789", "000000001", "1", "9")


def build(parts):
    """parts: list of (designator, intstr, fracstr, sep, in_time)"""
    s = "P"
    t = False
    for (des, i, f, sep, in_time) in parts:
        if in_time and not t:
            s += "T"
            t = True
        s += i + ((sep + f) if f else "") + des
    return s


def drive(ctx):
    q = ctx.quick()
    rnd = ctx.rnd
    work = []
    # valid: every non-empty subset of Y M D | H M S (weeks alone), integer components
    comps = [("Y", False), ("M", False), ("D", False), ("H", True), ("M", True), ("S", True)]
    for r in range(1, 7):
        for sub in itertools.combinations(range(6), r):
            for rep in range(2 if q else 6):
                parts = [(comps[i][0], rnd.choice(VALUES[:10] if rep else VALUES[:4]), "", ".", comps[i][1]) for i in sub]
                work.append(("valid", build(parts)))
                # fraction on the smallest (last) component, when that is not years / months
                last = comps[sub[-1]]
                if last[0] in ("D", "H", "S") or (last[0] == "M" and last[1]):
                    for f in pick(rnd, FRACS, 2 if q else 6):
                        p2 = parts[:-1] + [(last[0], parts[-1][1], f, rnd.choice(".,"), last[1])]
                        work.append(("valid", build(p2)))
    for v in VALUES:
        work.append(("valid", "P%sW" % v))
        for f in pick(rnd, FRACS, 3):
            work.append(("valid", "P%s%s%sW" % (v, rnd.choice(".,"), f)))
        for (des, tpart) in (("Y", False), ("M", False), ("D", False), ("H", True), ("M", True), ("S", True)):
            work.append(("valid", "P%s%s%s" % ("T" if tpart else "", v, des)))
    # random fraction strings of 1..9 digits on every admissible unit (a conversion through binary floating point
    # is wrong for about one fraction in a hundred only)
    rf = []
    for k in range(700 if q else 20000):
        nd = 1 + k % 9
        f = "".join(rnd.choice("0123456789") for _ in range(nd))
        des, tp = (("S", True), ("S", True), ("M", True), ("H", True), ("D", False), ("W", False))[k % 6]
        head = ("P", "P1Y2M3D", "P3D")[k % 3] if tp else ("P", "P1Y", "P2M")[k % 3]
        if des == "W":
            head = "P"
        rf.append(("valid", "%s%s%s%s%s%s" % (head, "T" if tp else "", rnd.choice(("0", "1", "6", "59", "100")), ".,"[k % 2], f, des)))
    for k in range(2000 if q else 40000):          # plain microsecond fractions of seconds: 4..6 digits
        f = "".join(rnd.choice("0123456789") for _ in range(4 + k % 3))
        rf.append(("valid", "%sT%s%s%sS" % (("P", "P1Y2M3D")[k % 2], rnd.choice(("0", "1", "6", "59")), ".,"[k % 2], f)))
    # fractions of seconds whose rounding carries into the next second / digit (7 to 9 digits)
    for f in ("9999996", "9999999", "99999951", "999999999", "0000006", "1234567", "8999999", "9999994", "0999999", "00000051",
              "59999996", "499999951"):
        for head in ("PT0", "PT59", "P1DT23H59M59", "PT1"):
            rf.append(("valid", "%s%s%sS" % (head, ".,"[len(f) % 2], f)))
    for des, tp in (("D", False), ("H", True), ("M", True)):          # tenths of days, hours and minutes
        for whole in ("0", "3", "12"):
            for f in "0123456789":
                rf.append(("valid", "%s%s%s.%s%s" % ("P", "T" if tp else "", whole, f, des)))
    rf = ctx.mine(rf)
    # the property's ill-formed classes
    for _ in range(20 if q else 200):
        a, b = rnd.sample(range(3), 2)
        if a > b:
            d3 = ["Y", "M", "D"]
            work.append(("out-of-order", "P%s%s%s%s" % (rnd.choice(VALUES[:6]), d3[a], rnd.choice(VALUES[:6]), d3[b])))
        a, b = rnd.sample(range(3), 2)
        if a > b:
            t3 = ["H", "M", "S"]
            work.append(("out-of-order", "PT%s%s%s%s" % (rnd.choice(VALUES[:6]), t3[a], rnd.choice(VALUES[:6]), t3[b])))
        work.append(("frac-year", "P%s%s%sY" % (rnd.choice(VALUES[:8]), rnd.choice(".,"), rnd.choice(FRACS))))
        work.append(("frac-month", "P%s%s%sM" % (rnd.choice(VALUES[:8]), rnd.choice(".,"), rnd.choice(FRACS))))
        work.append(("frac-year", "P1%s5Y2M" % rnd.choice(".,")))
    # every order of two and three date designators / time designators with non-zero and with zero values
    import itertools as _it

    ooo = []
    for vals in (("1", "2", "3"), ("0", "1", "2"), ("3", "0", "1"), ("12", "7", "0")):
        for (grp, pre) in (("YMD", "P"), ("HMS", "PT")):
            for r2 in (2, 3):
                for perm in _it.permutations(grp, r2):
                    if list(perm) != sorted(perm, key=grp.index):
                        ooo.append(("out-of-order", pre + "".join(v + d for v, d in zip(vals, perm))))
    # numbers too large to represent (more than 999999999 days; counts that do not fit 32 / 64 bits)
    for big in ("99999999999", "4294967297", "18446744073709551617", "1000000000", "999999999999999999999"):
        for tmpl in ("P%sD", "P%sW", "PT%sH", "PT%sM", "PT%sS", "P%sY", "P%sM", "P1DT%sS", "P%sDT1S"):
            work.append(("valid", tmpl % big))
    work = ctx.mine(sorted(set(work)))
    if q:
        work = pick(rnd, work, 900)
    for (cls, text) in work + rf + ctx.mine(ooo):
        ctx.emit("dur_parse", {"text": cps(text), "cls": cls})
    # intervals
    starts = ["2007-03-01T13:00:00Z", "2008-05-11T15:30:00+02:00", "2024-01-31T00:00:00", "2023-12-31T23:59:59.999999Z",
              "2020-02-29T12:00:00-05:30"]
    durs = ["P1Y2M10DT2H30M", "P1M", "PT36H", "P2W", "P1DT1S", "PT0.5S", "P11M30D", "PT1.000001S", "PT0S", "P0D", "P0W", "PT0H0M0S",
            "P0Y0M0DT0H0M0S", "PT0.0000001S"]
    ivs = []
    for s1 in starts:
        for s2 in starts:
            ivs.append(("start/end", s1, s2))
        for d in durs:
            ivs.append(("start/duration", s1, d))
            ivs.append(("duration/end", d, s1))
    ivs = ctx.mine(ivs)
    # end-points without an offset, read in a zone with DST (tz option): the computed end-point is found on the wall
    # clock of that zone, across the transition
    tzs = [{"n": "Europe/Paris", "fo": 0}, {"n": "America/New_York", "fo": 0}, {"n": "Australia/Lord_Howe", "fo": 0}]
    naive = ["2021-03-27T04:00:00", "2021-03-29T04:00:00", "2021-10-30T12:30:00", "2021-11-01T00:30:00", "2021-03-14T01:30:00",
             "2021-11-07T03:15:00", "2021-04-04T01:45:00", "2021-10-03T03:00:00.5"]
    # canonical component ranges only: for PT36H "start.add(duration)" has two readings (36 elapsed hours, or one
    # wall-clock day and 12 hours: the two parser back-ends build the Duration differently), cf. C04
    tdurs = ["P1DT3H", "P2DT1H30M", "PT23H", "P1D", "P1MT2H", "P10DT12H", "PT2H30M", "P1Y1DT1H"]
    tz_ivs = [(k2, s1, d, z) for z in tzs for s1 in naive for d in tdurs for k2 in ("start/duration", "duration/end")]
    for (kind, s1, d, z) in (pick(rnd, ctx.mine(tz_ivs), 25) if q else ctx.mine(tz_ivs)):
        t1, t2 = (s1, d) if kind == "start/duration" else (d, s1)
        ctx.emit("iv_parse", {"kind": kind, "t1": cps(t1), "t2": cps(t2), "tz": z})
    for (kind, t1, t2) in (pick(rnd, ivs, 60) if q else ivs):
        ctx.emit("iv_parse", {"kind": kind, "t1": cps(t1), "t2": cps(t2)})
