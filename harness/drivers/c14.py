"""C14 - pickle, copy and deepcopy reproduce every pendulum value exactly.
Values that USE the fragile state: ambiguous wall times with fold 0 and 1 in every zone that has overlaps,
naive/UTC/fixed-offset DateTimes, Dates, Times, Durations with every subset of components and either sign,
Intervals (forward, inverted, absolute; DateTime and Date end-points), Timezone and FixedTimezone objects
x pickle protocols 0..5 x {copy, deepcopy}."""
from __future__ import annotations

import itertools

from ..proj import mk_dt
from .common import NAIVE, UTCZ, anomalies, pick, real_zone_names, synth_zone_names, wall_of_localsec

HOWS = ["pickle%d" % p for p in range(6)] + ["copy", "deepcopy"]
KEYS = ("y", "mo", "w", "d", "h", "mi", "s", "ms", "us")


def dur(sign, keys):
    vals = {"y": 2, "mo": 5, "w": 3, "d": 4, "h": 7, "mi": 11, "s": 13, "ms": 0, "us": 17}
    a = {k: 0 for k in KEYS}
    for k in keys:
        a[k] = sign * vals[k]
    return {"k": "dur", "args": a}


def drive(ctx):
    from .. import gr

    gr.replay(ctx)          # behaviours of the Session state machine, real objects threaded
    q = ctx.quick()
    rnd = ctx.rnd
    full = ctx.backend == "rs" or not q
    n = 0

    def all_hows(v):
        nonlocal n
        hows = HOWS if not q else pick(rnd, HOWS[:6], 2) + ["copy", "deepcopy"]
        for h in hows:
            n += 1
            ctx.emit("copy", {"how": h}, [v])

    for zn in ctx.mine(real_zone_names(ctx)) + ctx.mine(synth_zone_names(ctx)):
        zr = {"n": zn, "fo": 0}
        ov = [x for x in anomalies(ctx, zn) if x[0] == "overlap"]
        for (kind, ws, we, _s, _b, _a) in pick(rnd, ov, (2 if full else 1) if q else 30):
            w = wall_of_localsec((ws + we) // 2, 123456)
            w0 = wall_of_localsec(ws - 86400 * 3, 5)
            if not (3 < w[0] < 9997):
                continue
            for f in (0, 1):
                all_hows(mk_dt(zr, w, f))
            all_hows(mk_dt(zr, w0, 0))
            # intervals whose end-points sit on the ambiguous time
            for (fa, fb, ab) in ((0, 1, False), (1, 0, False), (1, 0, True)):
                all_hows({"k": "iv", "a": mk_dt(zr, w0, fa), "b": mk_dt(zr, w, fb), "abs": ab})
        all_hows({"k": "tz", "z": zr, "zk": "pendulum"})
    if ctx.i == 0:
        for v in (mk_dt(NAIVE, [2020, 2, 29, 23, 59, 59, 999999], 0), mk_dt(NAIVE, [1, 1, 1, 0, 0, 0, 0], 1),
                  mk_dt(UTCZ, [9999, 12, 31, 23, 59, 59, 999999], 0), mk_dt({"n": "", "fo": 19800}, [2000, 1, 1, 0, 0, 0, 1], 0),
                  mk_dt({"n": "", "fo": -86340}, [1969, 12, 31, 0, 0, 0, 0], 1),
                  {"k": "date", "w": [2024, 2, 29], "cls": "Date"}, {"k": "date", "w": [1, 1, 1], "cls": "Date"},
                  {"k": "time", "w": [0, 0, 0, 0], "cls": "Time"}, {"k": "time", "w": [23, 59, 59, 999999], "cls": "Time"},
                  {"k": "tz", "z": {"n": "", "fo": 19800}, "zk": "fixed"}, {"k": "tz", "z": {"n": "", "fo": -3600}, "zk": "fixed"},
                  {"k": "tz", "z": UTCZ, "zk": "pendulum"}):
            all_hows(v)
        # fixed offsets carrying an explicit name (tz-database abbreviations such as "-03", "+04", "CET"), alone and
        # as the zone of a DateTime / Time
        from ..proj import cps

        for (fo, nm) in ((-10800, "-03"), (14400, "+04"), (3600, "CET"), (0, "UTC"), (19800, "+0530"), (19800, "IST"),
                         (-34200, "-0930"), (20700, "+0545"), (-1, "LMT"), (0, "Z"), (3600, "+01:00")):
            z = {"n": "", "fo": fo}
            all_hows({"k": "tz", "z": z, "zk": "fixed", "nm": cps(nm)})
            all_hows(dict(mk_dt(z, [2020, 5, 17, 1, 2, 3, 4], 0), nm=cps(nm)))
            all_hows({"k": "time", "w": [1, 2, 3, 4], "cls": "Time", "z": z, "zk": "fixed", "nm": cps(nm)})
            all_hows({"k": "time", "w": [23, 59, 59, 0], "cls": "Time", "z": z, "zk": "fixed"})
        # Times carrying an IANA zone (utcoffset() of such a time is None: the zone needs a date)
        for zn in ("Europe/Paris", "America/New_York", "Asia/Kathmandu", "Australia/Lord_Howe", "UTC"):
            all_hows({"k": "time", "w": [12, 34, 56, 7], "cls": "Time", "z": {"n": zn, "fo": 0}, "zk": "pendulum"})
        da = {"k": "date", "w": [2024, 1, 31], "cls": "Date"}
        db = {"k": "date", "w": [2025, 3, 1], "cls": "Date"}
        ua = mk_dt(UTCZ, [2024, 1, 31, 10, 0, 0, 0], 0)
        ub = mk_dt({"n": "Europe/Paris", "fo": 0}, [2025, 3, 1, 9, 30, 0, 7], 0)
        for (a, b, ab) in ((da, db, False), (db, da, False), (db, da, True), (ua, ub, False), (ub, ua, False), (ub, ua, True)):
            all_hows({"k": "iv", "a": a, "b": b, "abs": ab})
    # values cloned together: equal instants in different zones, equal walls in different zones, the same object twice
    if ctx.i == 1 % ctx.n:
        a1 = mk_dt(UTCZ, [2021, 6, 1, 10, 30, 0, 5], 0)
        b1 = mk_dt({"n": "Europe/Paris", "fo": 0}, [2021, 6, 1, 12, 30, 0, 5], 0)
        c1 = mk_dt({"n": "", "fo": 7200}, [2021, 6, 1, 12, 30, 0, 5], 0)
        d1 = mk_dt({"n": "America/New_York", "fo": 0}, [2021, 6, 1, 12, 30, 0, 5], 0)
        for (x, y) in ((a1, b1), (b1, a1), (b1, c1), (c1, b1), (b1, d1), (a1, a1), (c1, a1)):
            for h in ("deepcopy-pair", "pickle-pair"):
                ctx.emit("copy", {"how": h}, [x, y])
        # intervals whose two end-points are EQUAL as instants but differ as values (other zone, other offset kind)
        for (x, y) in ((a1, b1), (b1, a1), (b1, c1), (c1, a1)):
            for ab in (False, True):
                all_hows({"k": "iv", "a": x, "b": y, "abs": ab})
        # durations whose native value cancels out (falsy as a timedelta) although they carry components
        for args in (dict(mo=1, d=-30), dict(y=1, d=-365), dict(d=1, h=-24), dict(), dict(y=-1, mo=12, d=5), dict(w=1, d=-7),
                     dict(mo=2, d=-60, us=0), dict(y=1, mo=1, d=-395)):
            a = {k: 0 for k in KEYS}
            a.update(args)
            all_hows({"k": "dur", "args": a})
    # durations: every subset of components, either sign
    subsets = []
    comp = ("y", "mo", "w", "d", "h", "mi", "s", "us")
    for r in range(0, len(comp) + 1):
        subsets += list(itertools.combinations(comp, r))
    for ks in ctx.mine(subsets):
        for sign in (1, -1):
            if q and (len(ks) not in (0, 1, 2, 8)) and rnd.random() < 0.8:
                continue
            all_hows(dur(sign, ks))
