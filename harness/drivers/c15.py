"""C15 - calendar primitives agree with the proleptic Gregorian calendar in both back-ends.
Every year 1..9999 (primitives), every date (helper week_day; getters on Date/DateTime - in the quick
tier the getters cover a seed-rotated 1/6 of the years plus the boundary years), local_time at every
day boundary +-1 s with offsets in -86399..86399."""
from __future__ import annotations

import datetime as _dt

from .common import anomalies, pick, real_zone_names, wall_of_localsec


def drive(ctx):
    q = ctx.quick()
    rnd = ctx.rnd
    years = ctx.mine(range(1, 10000))
    rot = ctx.seed % 6
    for y in years:
        ctx.emit("year_prims", {"y": y})
        ctx.emit("year_weekdays", {"y": y})
        edge = y <= 12 or y >= 9990 or y % 400 in (0, 1, 399) or y % 100 == 0
        if not q or edge or y % 6 == rot:
            cls = ("Date", "DateTime")[y % 2] if q and not edge else None
            for c in ([cls] if cls else ["Date", "DateTime"]):
                ctx.emit("year_getters", {"y": y, "cls": c})
        if 2 <= y <= 9998 and (not q or edge or y % 3 == rot % 3):
            day0 = _dt.date(y, 1, 1).toordinal()
            nd = _dt.date(y, 12, 31).toordinal() - day0 + 1
            ds, offs, us = [], [], []
            for k in range(nd):
                ds.append((-1, 0, 1, 86399, 43200, rnd.randrange(-86400, 2 * 86400))[(k + y) % 6])
                offs.append((0, 86399, -86399, 3600, -1, rnd.randrange(-86399, 86400), 19800)[(k + 2 * y) % 7])
                us.append((0, 999999, rnd.randrange(1000000))[k % 3])
            ctx.emit("local_time_scan", {"day0": day0, "ds": ds, "offs": offs, "us": us})
    # getters on DateTimes in real zones (the zone must not matter)
    zs = ["Europe/Paris", "America/Sao_Paulo", "Pacific/Kiritimati", "Asia/Kolkata", "America/Havana"]
    for y in ctx.mine(range(1900, 2100)):
        if not q or y % 5 == rot % 5:
            for f in (0, 1):
                ctx.emit("year_getters", {"y": y, "cls": "DateTimeTz", "tz": {"n": zs[(y // 5) % 5], "fo": 0}, "f": f})
    # directed: every (zone, year) whose tz data has a gap covering 00:00 on the 1st of a month
    seen = set()
    for zn in ctx.mine(real_zone_names(ctx)):
        for (kind, ws, we, _s, _b, _a) in anomalies(ctx, zn, rule_years=()):
            if kind != "gap":
                continue
            w = wall_of_localsec(ws)
            if w[2] == 1 and w[3:6] == [0, 0, 0] and 2 < w[0] < 9998 and (zn, w[0]) not in seen:
                seen.add((zn, w[0]))
    seen = sorted(seen)
    if q:
        seen = pick(rnd, seen, 10)
    for (zn, y) in seen:
        for f in (0, 1):
            ctx.emit("year_getters", {"y": y, "cls": "DateTimeTz", "tz": {"n": zn, "fo": 0}, "f": f})
