"""C16 - weekday navigation lands on the right day inside the right unit.
Stimuli: every month shape (28..31 days x 7 starting weekdays), all quarters, leap years x 7 weekdays
(and none) x n in 1..54 x 3 units, for Date and DateTime (UTC, naive); DateTimes in zones on and around
days with a skipped or repeated midnight, both folds, with and without keep_time."""
from __future__ import annotations

import calendar

from ..proj import mk_dt
from .common import NAIVE, UTCZ, anomalies, pick, real_zone_names, synth_zone_names, wall_of_localsec

UNITS3 = ("month", "quarter", "year")


def shapes():
    seen = {}
    for y in range(2016, 2045):
        for m in range(1, 13):
            wd, dim = calendar.monthrange(y, m)
            seen.setdefault((dim, wd, (m - 1) // 3, calendar.isleap(y)), (y, m))
    return sorted(seen.values())


def drive(ctx):
    from .. import suite

    suite.trace_suite(ctx)      # the repository's own tests, recorded by the external tracer
    from .. import gr

    gr.replay(ctx)          # behaviours of the Session state machine, real objects threaded
    q = ctx.quick()
    rnd = ctx.rnd
    n = 0
    for (y, m) in ctx.mine(shapes()):
        dim = calendar.monthrange(y, m)[1]
        for d in (1, 15, dim) if not q else (rnd.choice((1, 2, 15, dim)),):
            vals = [{"k": "date", "w": [y, m, d], "cls": "Date"}, mk_dt(UTCZ, [y, m, d, 13, 14, 15, 16], 0),
                    mk_dt(NAIVE, [y, m, d, 0, 0, 0, 0], 0)]
            for v in vals:
                isdt = v["k"] == "dt"
                for wd in (-1, 0, 1, 2, 3, 4, 5, 6):
                    n += 1
                    # navigation must not depend on the process-wide week configuration: every fifth call runs under one
                    wc = {"wcfg": {"ws": n % 7, "we": (n + 6) % 7}} if n % 5 == 0 else {}
                    ctx.emit("next", dict({"wd": wd, "keep": isdt and n % 2 == 0}, **wc), [v])
                    ctx.emit("previous", dict({"wd": wd, "keep": isdt and n % 3 == 0}, **wc), [v])
                    for unit in UNITS3:
                        ctx.emit("first_of", dict({"unit": unit, "wd": wd}, **wc), [v])
                        ctx.emit("last_of", dict({"unit": unit, "wd": wd}, **wc), [v])
                        if wd == -1:
                            continue
                        top = {"month": 6, "quarter": 15, "year": 54}[unit]
                        ns = list(range(1, top + 1))
                        if q:
                            ns = sorted(set([1, 2, top, top - 1] + pick(rnd, ns, 2) + ({"month": [4, 5], "quarter": [13, 14],
                                                                                         "year": [52, 53]}[unit])))
                        for k in ns:
                            ctx.emit("nth_of", dict({"unit": unit, "n": k, "wd": wd}, **wc), [v])
    # the two ends of the representable range (plain Dates): the units of year 9999 and of year 1
    if ctx.i == 2 % ctx.n:
        for (y, m, d) in ((9999, 12, 15), (9999, 10, 1), (9999, 11, 30), (9999, 1, 1), (1, 1, 1), (1, 12, 31), (1, 2, 14)):
            v = {"k": "date", "w": [y, m, d], "cls": "Date"}
            for wd in (-1, 0, 1, 2, 3, 4, 5, 6):
                for unit in UNITS3:
                    ctx.emit("first_of", {"unit": unit, "wd": wd}, [v])
                    ctx.emit("last_of", {"unit": unit, "wd": wd}, [v])
                    if wd != -1:
                        for k in (1, 4, 5):
                            ctx.emit("nth_of", {"unit": unit, "n": k, "wd": wd}, [v])
    # zones: days whose midnight is skipped or repeated, both folds
    full = ctx.backend == "rs" or not q
    for zn in ctx.mine(real_zone_names(ctx)) + ctx.mine(synth_zone_names(ctx)):
        zr = {"n": zn, "fo": 0}
        an = [x for x in anomalies(ctx, zn) if x[1] % 86400 == 0 or x[2] % 86400 == 0]
        for (kind, ws, we, _s, _b, _a) in pick(rnd, an, (2 if full else 1) if q else 25):
            day0 = ws - ws % 86400
            for off_days in ((0, -1, -7, 1, -200, 150) if not q else (0, rnd.choice((-1, -7, 1, -3)), rnd.choice((-200, 150, 400)))):
                w = wall_of_localsec(day0 + off_days * 86400 + 43200 + 1830, 7)
                if not (103 < w[0] < 9897):
                    continue
                target_wd = calendar.weekday(*wall_of_localsec(day0)[:3])
                for f in (0, 1):
                    v = mk_dt(zr, w, f)
                    n += 1
                    for keep in (False, True):
                        ctx.emit("next", {"wd": target_wd, "keep": keep}, [v])
                        ctx.emit("previous", {"wd": target_wd, "keep": keep}, [v])
                    for unit in UNITS3:
                        ctx.emit("first_of", {"unit": unit, "wd": -1}, [v])
                        ctx.emit("first_of", {"unit": unit, "wd": target_wd}, [v])
                        ctx.emit("last_of", {"unit": unit, "wd": target_wd}, [v])
                        ctx.emit("nth_of", {"unit": unit, "n": rnd.randrange(1, 6), "wd": target_wd}, [v])
