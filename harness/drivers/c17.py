"""C17 - parse() is total: a supported value or a ValueError/ParserError, nothing else.
Every valid form of C07/C13 subjected to single character edits (all of them in the thorough tier, a sample
in the quick tier) and sampled double edits over [0-9:TZW/P+-., YMDHS], truncations and concatenations,
plus random strings including non-ASCII, x options {exact, strict, tz, day_first, year_first}."""
from __future__ import annotations

from ..proj import cps
from .common import UTCZ, pick

ALPHA = "0123456789:TZW/P+-., YMDHS"
SEEDS = ["2016-10-06", "20161006", "2016-280", "2016280", "2016-W40-4", "2016W404", "2016-W40", "2016-10", "2016",
         "2016-10-06T12:34:56", "2016-10-06 12:34:56", "20161006T123456", "2016-10-06T12:34:56.123456", "2016-10-06T12:34:56,123456789",
         "2016-10-06T12:34:56Z", "2016-10-06T12:34:56+05:30", "2016-10-06T12:34:56-0800", "2016-10-06T12:34+01", "2016-10-06T12",
         "2016-W40-4T12:34:56+00:00", "2016280T1234Z", "12:34:56", "12:34:56.5", "T12:34", "0001-01-01T00:00:00Z", "9999-12-31T23:59:59.999999Z",
         "P1Y2M3DT4H5M6S", "P2W", "PT36H", "P1.5D", "PT0.000001S", "P1Y", "PT1M", "P1M", "P3Y6M4DT12H30M5S", "PT99999999999S",
         "2007-03-01T13:00:00Z/2008-05-11T15:30:00Z", "2007-03-01T13:00:00Z/P1Y2M10DT2H30M", "P1Y2M10DT2H30M/2008-05-11T15:30:00Z",
         "2007-03-01T13:00:00Z/PT0S", "P0D/2008-05-11T15:30:00Z", "2007-03-01T13:00:00/P0Y0M0DT0H0M0S", "PT0S", "P0W", "P0Y",
         "2007-03-01T13:00:00Z/PT1S", "2007-03-01/2007-03-01", "2016-10-06T00:00:00+00:00/PT0.0S",
         "2016-10-06 12:34:56", "1975-05-21 22:00:00", "2016-13-01", "2016-02-30", "2016-W54", "2016-367", "now",
         "2016-10-06T12:34:56.9999999999", "2016-10-06T12:34:56.1234567891234Z", "2016-10-06T12:34:56,00000000019+05:30",
         "2016-10-06T12:34:56.429496729599", "2016-10-06T12:34:56-00:30", "2016-10-06T12:34:56-0030", "2016-10-06T12:34:56+00:30",
         "2007-03-01T13:00:00Z//2008-05-11T15:30:00Z", "2007-03-01T13:00:00Z/PT1H/2008-05-11T15:30:00Z",
         "2007-03-01T13:00:00Z/x/2008-05-11T15:30:00Z", "2007-03-01T13:00:00Z/2008-05-11T15:30:00Z/",
         "PT2H30M/2008-05-11T15:30:00Z", "P1DT2H30M15S/2008-05-11T15:30:00+02:00", "2008-05-11T15:30:00-03:00/PT2H30M",
         "9999-W52-6", "9999-W52-7", "9999W527", "9999-W52-5T10:00:00", "0001-W01-1", "2020-W54-1", "2015W60", "2020-W53-7", "2021-W53-1",
         "2016:12:26 15:45:28.1234567", "2021/02/28 23:59:59,12345678", "9:05:03.1234567", "2016:12:26 15:45:28.123456789",
         "2019-W53-1", "2019W53", "2020-W99-7", "2020W541", "2020-W10-8", "2016-W53", "2015-W54",
         "2007-03-01T13:00:00Z/PT2.30M", "PT1,25H/2008-05-11T15:30:00Z", "2007-03-01T13:00:00+01:00/P1.5D", "2007-03-01T13:00:00Z/P1.2W",
         "2007-03-01T13:00:00Z/PT0.9999996S", "PT1.0000005S/2008-05-11T15:30:00-03:00", "2007-03-01T13:00:00Z/PT2.5M", "2007-03-01T13:00:00Z/PT1.5S",
         "2016:10:06 12:34:56", "2016/10/06", "0000/13/99 12:30", "0000-01-01 00:00:00", "2016/00/10 01:02", "2016:02:30 12:34:56",
         "0000:10:06 12:34", "2016/10/06 12:34:56", "2016:10", "2016/10", "201610", "2016:10 12:34", "2016/10 1:2:3.5", "12:34"]
RANDOM_EXTRA = ["", " ", "T", "P", "PT", "-", "+", "::", "2016-10-06T", "2016-10-06T12:34:56+", "٢٠١٦-١٠-٠٦", "２０１６-10-06", "2016‐10‐06",
                "2016-10-06T12:34:56Ｚ", "١٢:٣٤", "P１D", "\x00", "2016-10-06\n", "\t2016-10-06", "2016-10-06 12:34:56 PM", "October 6th 2016",
                "06/10/2016", "31-12-99", "1e5", "nan", "9" * 30, "P" + "9" * 40 + "D", "2016-10-06T25:00", "2016-10-06T12:60",
                "99999-01-01", "-2016-10-06", "2016-10-06T12:34:56+24:00", "2016-10-06T12:34:56.", "12", "1234", "123456"]


def edits1(s, alphabet):
    for i in range(len(s)):
        yield s[:i] + s[i + 1:]
    for i in range(len(s)):
        for c in alphabet:
            if c != s[i]:
                yield s[:i] + c + s[i + 1:]
    for i in range(len(s) + 1):
        for c in alphabet:
            yield s[:i] + c + s[i:]


def opts(n, strict=None):
    st = bool(n % 3) if strict is None else strict
    return {"exact": bool(n % 2), "strict": st, "tz": (UTCZ, {"n": "Europe/Paris", "fo": 0}, {"n": "", "fo": 19800})[(n // 2) % 3]
            if n % 5 == 0 else UTCZ, "day_first": bool((n // 3) % 2), "year_first": bool((n // 6) % 2)}


def drive(ctx):
    q = ctx.quick()
    rnd = ctx.rnd
    n = 0
    seeds = ctx.mine(SEEDS)
    for s in seeds:
        for k in range(4):
            n += 1
            ctx.emit("parse_any", {"text": cps(s), "opts": opts(n + k), "origin": "seed"})
        e1 = list(edits1(s, ALPHA))
        if q:
            e1 = pick(rnd, e1, 220)
        for t in e1:
            n += 1
            ctx.emit("parse_any", {"text": cps(t), "opts": opts(n), "origin": "edit1"})
        for k in range(60 if q else 1500):
            t = rnd.choice(e1)
            t2 = rnd.choice(list(edits1(t, rnd.sample(ALPHA, 4)))) if t else "x"
            n += 1
            ctx.emit("parse_any", {"text": cps(t2), "opts": opts(n), "origin": "edit2"})
        for cut in range(len(s)):
            n += 1
            ctx.emit("parse_any", {"text": cps(s[:cut]), "opts": opts(n), "origin": "truncate"})
        for other in pick(rnd, SEEDS, 3 if q else 12):
            for joiner in ("", " ", "T", "/"):
                n += 1
                ctx.emit("parse_any", {"text": cps(s + joiner + other), "opts": opts(n), "origin": "concat"})
    for t in ctx.mine(RANDOM_EXTRA):
        for k in range(6):
            n += 1
            ctx.emit("parse_any", {"text": cps(t), "opts": opts(n + k), "origin": "handwritten"})
    pools = ["0123456789", ALPHA, "abcdefghijklmnopqrstuvwxyzJFMASOND ,.-/:0123456789", "٠١٢３４５六七８９-:TＺ＋", "​ ﻿-:0123456789"]
    for k in range(150 if q else 4000):
        pool = pools[k % len(pools)]
        t = "".join(rnd.choice(pool) for _ in range(rnd.randrange(0, 28)))
        n += 1
        ctx.emit("parse_any", {"text": cps(t), "opts": opts(n), "origin": "random"})
