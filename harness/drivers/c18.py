"""C18 - human-readable differences are total, localized and correctly directed.
All shipped locales x 7 units x counts covering every CLDR plural class (0..1000 exhaustively in the thorough
tier) x {now, other} x {past, future} x {absolute} through format_diff / diff_for_humans (explicit reference
instants: time travel is broken in this image); thresholds around the round-up rules; in_words() for Durations
and Intervals."""
from __future__ import annotations

from ..locales import names as locale_names
from ..proj import cps, i3_to_wall, mk_dt, sec_to_i3
from .common import UTCZ, pick

UNITS = ("years", "months", "weeks", "days", "hours", "minutes", "seconds")
QCOUNTS = [0, 1, 2, 3, 4, 5, 6, 7, 10, 11, 12, 13, 14, 19, 20, 21, 22, 23, 24, 25, 30, 31, 59, 60, 100, 101, 102, 103, 104, 105, 111, 112,
           113, 121, 122, 200, 999, 1000]
SEC = {"years": 31536000, "months": 2592000, "weeks": 604800, "days": 86400, "hours": 3600, "minutes": 60, "seconds": 1}


def drive(ctx):
    q = ctx.quick()
    rnd = ctx.rnd
    locs = locale_names()
    base = mk_dt(UTCZ, [2020, 1, 1, 0, 0, 0, 0], 0)
    import datetime as _dt

    def shifted(unit, count, extra=0):
        # the other end-point, built with the standard library only (calendar units by field arithmetic)
        y, m = 2020, 1
        d = _dt.datetime(2020, 1, 1)
        if unit == "years":
            d = d.replace(year=2020 + count)
        elif unit == "months":
            t = 2020 * 12 + count
            d = d.replace(year=t // 12, month=t % 12 + 1)
        else:
            d = d + _dt.timedelta(seconds=SEC[unit] * count)
        d = d + _dt.timedelta(seconds=extra)
        return mk_dt(UTCZ, [d.year, d.month, d.day, d.hour, d.minute, d.second, d.microsecond], 0)

    for loc in ctx.mine(locs):
        ctx.emit("locale_tables", {"locale": loc, "scope": "plural"})
    work = []
    for loc in locs:
        for unit in UNITS:
            counts = QCOUNTS if q else list(range(0, 1001))
            for c in counts:
                work.append((loc, unit, c))
    work = ctx.mine(work)
    n = 0
    for (loc, unit, c) in work:
        other = shifted(unit, c)
        combos = [(en, ab, fut) for en in ("format_diff_now", "format_diff_other", "diff_for_humans", "diff_for_humans_now")
                  for ab in (False, True) for fut in (False, True)]
        for (en, ab, fut) in (pick(rnd, combos, 3) if q else combos):
            n += 1
            x, y = (other, base) if fut else (base, other)       # future: the instance is later than the reference
            if en.startswith("format_diff"):
                ctx.emit("humanize", {"entry": "format_diff", "is_now": en.endswith("now"), "absolute": ab, "locale": loc}, [x, y])
            elif en == "diff_for_humans":
                ctx.emit("humanize", dict({"entry": en, "is_now": False, "absolute": ab, "locale": loc},
                                          **({"via": "default"} if n % 3 == 0 else {})), [x, y])
            else:
                ctx.emit("humanize", {"entry": en, "is_now": True, "absolute": ab, "locale": loc}, [x, y])
    # thresholds of the round-up rules and mixed components
    extras = [("years", 1, 86400 * 190), ("years", 1, 86400 * 170), ("months", 11, 86400 * 16), ("months", 11, 86400 * 14),
              ("months", 3, 86400 * 27), ("months", 3, 86400 * 26), ("weeks", 2, 86400 * 4), ("weeks", 2, 86400 * 3), ("days", 5, 3600 * 22),
              ("days", 5, 3600 * 21), ("hours", 23, 3599), ("minutes", 59, 59), ("seconds", 10, 0), ("seconds", 11, 0), ("seconds", 0, 0),
              ("seconds", 59, 0), ("days", 6, 3600 * 23 + 3599), ("weeks", 4, 86400 * 2 + 5), ("months", 12, 5)]
    for (unit, c, extra) in ctx.mine(extras):
        for loc in (pick(rnd, locs, 4) if q else locs):
            other = shifted(unit, c, extra)
            for fut in (False, True):
                for (isnow, ab) in ((True, False), (False, False), (False, True)):
                    x, y = (other, base) if fut else (base, other)
                    ctx.emit("humanize", {"entry": "format_diff", "is_now": isnow, "absolute": ab, "locale": loc}, [x, y])
    # random instants: direction and magnitude
    for k in range(60 if q else 2000):
        s1 = rnd.randrange(-2 * 10 ** 9, 4 * 10 ** 9)
        s2 = s1 + rnd.choice((1, -1)) * rnd.choice((rnd.randrange(120), rnd.randrange(86400 * 3), rnd.randrange(86400 * 400), rnd.randrange(86400 * 4000)))
        x = mk_dt(UTCZ, i3_to_wall(sec_to_i3(s1, 0)), 0)
        y = mk_dt(UTCZ, i3_to_wall(sec_to_i3(s2, 0)), 0)
        ctx.emit("humanize", {"entry": ("format_diff", "diff_for_humans")[k % 2], "is_now": bool(k % 3 == 0) and k % 2 == 0, "absolute": bool(k % 5 == 0),
                              "locale": rnd.choice(locs)}, [x, y])
    # an end-point in the second pass of a repeated hour against a reference in another zone, minutes apart
    from .common import real_zone_names, zone_transitions

    znames = real_zone_names(ctx)
    for zn in ctx.mine(["Europe/Paris", "America/New_York", "Australia/Lord_Howe", "America/Sao_Paulo", "Asia/Tehran", "Europe/London",
                        "America/Havana", "Pacific/Auckland"]):
        ovs = [t for t in zone_transitions(ctx, zn) if t[2] < t[1] and 0 < t[0] < 2 * 10 ** 9]
        # (a repeated hour on the first day of a month always among them: the compiled helper's conversion to UTC has to
        # borrow across the month there)
        import time as _time

        first = [t for t in ovs if _time.gmtime(t[0] + t[2]).tm_mday == 1]
        for (sec, b_, a_) in pick(rnd, ovs, 2 if q else 10) + first[-(1 if q else 4):]:
            for (d1, d2) in ((5, 425), (300, 7500), (-200, 100), (1000, 1000 + 86400 * 3)):
                x = ctx.emit("in_tz", {"tz": {"n": zn, "fo": 0}}, [mk_dt(UTCZ, i3_to_wall(sec_to_i3(sec + d1, 0)), 0)], log=False)
                y = mk_dt(UTCZ, i3_to_wall(sec_to_i3(sec + d2, 0)), 0)
                if isinstance(x, Exception):
                    continue
                from ..proj import enc as _enc

                for loc in ("en", rnd.choice(locs)):
                    ctx.emit("humanize", {"entry": "diff_for_humans", "is_now": False, "absolute": False, "locale": loc}, [_enc(x), y])
                    ctx.emit("humanize", {"entry": "format_diff", "is_now": True, "absolute": False, "locale": loc}, [y, _enc(x)])
    # locale-dependent format tokens render for every locale: ordinals of every day and month, names, day periods
    for loc in ctx.mine(locs):
        for day in range(1, 32):
            v = mk_dt(UTCZ, [2023, 1 + day % 12, min(day, 28) if day % 12 == 1 else day if day <= 30 and day % 12 != 1 else 28, (day * 5) % 24, 0, 0, 0], 0)
            v = mk_dt(UTCZ, [2023, 1, day, (day * 5) % 24, 0, 0, 0], 0)
            ctx.emit("format", {"items": [["tok", "Do", cps("Do")], ["lit", cps(" ")], ["tok", "dddd", cps("dddd")], ["lit", cps(" ")], ["tok", "A", cps("A")]],
                                "locale": loc, "method": "format", "named": ""}, [v])
        for mo in range(1, 13):
            v = mk_dt(UTCZ, [2024, mo, 11, 13, 0, 0, 0], 0)
            ctx.emit("format", {"items": [["tok", "Mo", cps("Mo")], ["lit", cps(" ")], ["tok", "Qo", cps("Qo")], ["lit", cps(" ")], ["tok", "MMMM", cps("MMMM")],
                                          ["lit", cps(" ")], ["tok", "ddd", cps("ddd")]], "locale": loc, "method": "format", "named": ""}, [v])
    # two times of day, also within one second of each other (direction down to the microsecond)
    for k in range(80 if q else 2000):
        h, mi, sc = rnd.randrange(24), rnd.randrange(60), rnd.randrange(60)
        u1, u2 = rnd.randrange(10 ** 6), rnd.randrange(10 ** 6)
        t1 = {"k": "time", "w": [h, mi, sc, u1], "cls": "Time"}
        if k % 2:
            t2 = {"k": "time", "w": [h, mi, sc, u2], "cls": "Time"}                   # same second
        else:
            t2 = {"k": "time", "w": [rnd.randrange(24), rnd.randrange(60), rnd.randrange(60), u2], "cls": "Time"}
        ctx.emit("humanize", {"entry": "time_diff_for_humans", "is_now": False, "absolute": bool(k % 5 == 0), "locale": rnd.choice(locs)}, [t1, t2])
    # a Date against Dates, DateTimes and their native counterparts
    for k in range(60 if q else 1500):
        d0 = [rnd.randrange(1990, 2030), rnd.randrange(1, 13), rnd.randrange(1, 29)]
        d1 = [d0[0] + rnd.choice((0, 0, 1, -2)), rnd.randrange(1, 13), rnd.randrange(1, 29)] if k % 3 else [d0[0], d0[1], min(28, d0[2] + rnd.randrange(0, 9))]
        x = {"k": "date", "w": d0, "cls": "Date"}
        y = {"k": "date", "w": d1, "cls": "Date"} if k % 2 else mk_dt(UTCZ if k % 4 else {"n": "Europe/Paris", "fo": 0}, d1 + [rnd.randrange(24), 30, 0, 0], 0)
        ctx.emit("humanize", {"entry": "date_diff_for_humans", "is_now": False, "absolute": bool(k % 5 == 0), "locale": rnd.choice(locs),
                              "other": ("pendulum", "native")[(k // 2) % 2]}, [x, y])
    # in_words
    durs = [dict(y=1), dict(mo=2), dict(w=3), dict(d=4), dict(h=5), dict(mi=6), dict(s=7), dict(y=1, mo=1, w=1, d=1, h=1, mi=1, s=1),
            dict(y=2, mo=3, w=2, d=5, h=22, mi=59, s=59), dict(d=-3, h=-2), dict(w=-1), dict(s=0), dict(us=123456), dict(h=21, s=2),
            dict(y=5, d=1), dict(mo=11, mi=11), dict(us=-250000), dict(s=1, us=-1400000)]
    for loc in ctx.mine(locs):
        for dd in (pick(rnd, durs, 5) if q else durs):
            a = {k: 0 for k in ("y", "mo", "w", "d", "h", "mi", "s", "ms", "us")}
            a.update(dd)
            ctx.emit("in_words", dict({"entry": "duration", "locale": loc, "sep": cps((" ", ", ", " - ")[n % 3])},
                                      **({"via": "default"} if n % 2 == 0 else {})), [{"k": "dur", "args": a}])
            n += 1
        for (unit, c, extra) in (pick(rnd, extras, 3) if q else extras):
            ctx.emit("in_words", {"entry": "interval", "locale": loc, "sep": cps(" ")}, [base, shifted(unit, c, extra)])
        # intervals and durations shorter than a second, and empty ones
        sub = mk_dt(UTCZ, [2020, 1, 1, 0, 0, 0, 300000], 0)
        ctx.emit("in_words", {"entry": "interval", "locale": loc, "sep": cps(" ")}, [base, sub])
        ctx.emit("in_words", {"entry": "interval", "locale": loc, "sep": cps(" ")}, [sub, base])
        ctx.emit("in_words", {"entry": "interval", "locale": loc, "sep": cps(" ")}, [base, base])
