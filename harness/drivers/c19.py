"""C19 - Interval.range() steps from the start without drift and stays inside.
Intervals forward / inverted / absolute over DateTime (zones, DST days, UTC, naive) and Date x 8 units x
steps 1..12, starts on days 29-31 for month/year stepping, long ranges (up to 10^4 steps); containment."""
from __future__ import annotations

import datetime as _dt

from ..proj import i3_to_wall, mk_dt, sec_to_i3
from .common import HI, LO, NAIVE, UTCZ, pick, real_zone_names, synth_zone_names, zone_transitions

UNITS = ("years", "months", "weeks", "days", "hours", "minutes", "seconds", "microseconds")
SPAN = {"years": 86400 * 365 * 40, "months": 86400 * 30 * 50, "weeks": 86400 * 7 * 60, "days": 86400 * 90,
        "hours": 3600 * 100, "minutes": 60 * 400, "seconds": 500, "microseconds": 0}


def drive(ctx):
    from .. import gr

    gr.replay(ctx)          # behaviours of the Session state machine: queries on values with a history
    q = ctx.quick()
    rnd = ctx.rnd
    n = 0
    # month-end starts: days 29-31, month / year stepping, every step size
    starts = [(2023, 1, 31), (2024, 1, 31), (2024, 2, 29), (2023, 3, 31), (2023, 8, 31), (2023, 10, 30), (2023, 12, 31),
              (2023, 5, 29), (2100, 1, 31), (2000, 2, 29)]
    for (y, m, d) in ctx.mine(starts):
        for unit in ("months", "years"):
            for step in (range(1, 13) if not q else pick(rnd, range(1, 13), 4)):
                n += 1
                span_m = rnd.randrange(3, 40) * step
                t = y * 12 + (m - 1) + (span_m if unit == "months" else span_m * 12)
                ey, em = t // 12, t % 12 + 1
                ed = min(d, [31, 29 if ey % 4 == 0 and (ey % 100 or ey % 400 == 0) else 28, 31, 30, 31, 30, 31, 31, 30, 31,
                             30, 31][em - 1])
                if ey > 9000:
                    continue
                kind = n % 3
                if kind == 0:
                    a = {"k": "date", "w": [y, m, d], "cls": "Date"}
                    b = {"k": "date", "w": [ey, em, ed], "cls": "Date"}
                else:
                    zr = (UTCZ, {"n": "Europe/Paris", "fo": 0})[kind - 1]
                    a = mk_dt(zr, [y, m, d, 12, 30, 0, 0], 0)
                    b = mk_dt(zr, [ey, em, ed, 12, 30, 0, (0, 1)[n % 2]], 0)
                for (x, z, ab) in ((a, b, False), (b, a, False), (b, a, True)):
                    ctx.emit("range", {"abs": ab, "unit": unit, "n": step}, [x, z])
    # zones: ranges across transitions, every unit
    names = real_zone_names(ctx)
    full = ctx.backend == "rs" or not q
    for zn in ctx.mine(names) + ctx.mine(synth_zone_names(ctx)):
        zr = {"n": zn, "fo": 0}
        trs = zone_transitions(ctx, zn)
        for (sec, b_, a_) in pick(rnd, trs, (2 if full else 1) if q else 6):
            for unit in (pick(rnd, UNITS, 2) if q else UNITS):
                n += 1
                before = rnd.randrange(1, 4)
                if unit == "microseconds":
                    s1, us1, s2, us2 = sec - 1, 999990, sec, 40
                else:
                    s1, us1 = sec - SPAN[unit] // rnd.randrange(3, 9), rnd.randrange(1000000)
                    s2, us2 = sec + SPAN[unit] // rnd.randrange(2, 7), rnd.randrange(1000000)
                if not (LO < s1 < HI and LO < s2 < HI):
                    continue
                x = ctx.emit("in_tz", {"tz": zr}, [mk_dt(UTCZ, i3_to_wall(sec_to_i3(s1, us1)), 0)])
                y = ctx.emit("in_tz", {"tz": zr}, [mk_dt(UTCZ, i3_to_wall(sec_to_i3(s2, us2)), 0)])
                if isinstance(x, Exception) or isinstance(y, Exception):
                    continue
                step = rnd.randrange(1, 13)
                for (p0, p1, ab) in ((x, y, False), (y, x, False), (y, x, True)):
                    ctx.emit("range", {"abs": ab, "unit": unit, "n": step}, pre_objs=[p0, p1])
                mid = ctx.emit("in_tz", {"tz": zr}, [mk_dt(UTCZ, i3_to_wall(sec_to_i3((s1 + s2) // 2, 3)), 0)])
                if not isinstance(mid, Exception):
                    for (p0, p1, pt, ab) in ((x, y, mid, False), (y, x, mid, False), (y, x, mid, True), (x, mid, y, False),
                                             (x, y, x, False), (x, y, y, True)):
                        ctx.emit("contains", {"abs": ab}, pre_objs=[p0, p1, pt])
    # containment with an end-point inside a repeated hour and probes from OTHER zones just around it
    for zn in ctx.mine(names):
        zr = {"n": zn, "fo": 0}
        ovs = [t for t in zone_transitions(ctx, zn) if t[2] < t[1] and LO + 10 ** 6 < t[0] < HI - 10 ** 6]
        for (sec, b_, a_) in pick(rnd, ovs, 1 if q else 6):
            g = b_ - a_
            e_s, s_s = sec - g // 2, sec - 86400
            S = ctx.emit("in_tz", {"tz": zr}, [mk_dt(UTCZ, i3_to_wall(sec_to_i3(s_s, 0)), 0)], log=False)
            E = ctx.emit("in_tz", {"tz": zr}, [mk_dt(UTCZ, i3_to_wall(sec_to_i3(e_s, 0)), 0)], log=False)
            if isinstance(S, Exception) or isinstance(E, Exception):
                continue
            other = {"n": rnd.choice(names), "fo": 0}
            for ps in (e_s + 1, e_s + g // 2 + 5, e_s - 1, e_s + g + 10, s_s - 1, s_s, e_s):
                for pz in (UTCZ, other, {"n": "", "fo": 19800}):
                    P = ctx.emit("in_tz", {"tz": pz}, [mk_dt(UTCZ, i3_to_wall(sec_to_i3(ps, 0)), 0)], log=False)
                    if not isinstance(P, Exception):
                        ctx.emit("contains", {"abs": False}, pre_objs=[S, E, P])
                        ctx.emit("contains", {"abs": True}, pre_objs=[E, S, P])
    # Date intervals iterated directly and by days / weeks: short (0, 1, 2 days), month-sized and long, every orientation
    import datetime as _dt3

    for k in range(24 if q else 300):
        d0 = _dt3.date(rnd.randrange(1950, 2090), rnd.randrange(1, 13), rnd.randrange(1, 29))
        d1 = d0 + _dt3.timedelta(days=(0, 1, 2, 3, 7, 30, 31, 365, 400, 1000)[k % 10])
        a = {"k": "date", "w": [d0.year, d0.month, d0.day], "cls": "Date"}
        b = {"k": "date", "w": [d1.year, d1.month, d1.day], "cls": "Date"}
        for (x, y, ab) in ((a, b, False), (b, a, False), (b, a, True), (a, b, True)):
            ctx.emit("range", {"abs": ab, "unit": "days", "n": 1, "mode": "iter"}, [x, y])
            ctx.emit("range", {"abs": ab, "unit": "days", "n": 1 + k % 3}, [x, y])
            if k % 4 == 0:
                ctx.emit("range", {"abs": ab, "unit": "weeks", "n": 1}, [x, y])
    # iteration by days, long ranges, naive, dates, random
    for k in range(40 if q else 500):
        s1 = rnd.randrange(LO + 86400 * 400, HI - 86400 * 365 * 40)
        unit = UNITS[k % 8]
        steps = rnd.choice((3, 17, 200, 2500 if not q else 600, 9999 if k % 20 == 0 else 50))
        step = rnd.randrange(1, 13)
        per = {"years": 86400 * 366, "months": 86400 * 31, "weeks": 86400 * 7, "days": 86400, "hours": 3600, "minutes": 60,
               "seconds": 1, "microseconds": 0}[unit]
        s2 = s1 + per * step * steps + rnd.randrange(0, max(per, 1))
        us2 = 0 if unit != "microseconds" else step * steps
        if not LO < s2 < HI - 86400 * 400:
            continue
        w1 = i3_to_wall(sec_to_i3(s1, 0))
        w2 = i3_to_wall(sec_to_i3(s2, us2 % 1000000))
        if unit == "microseconds":
            w2 = i3_to_wall(sec_to_i3(s1 + us2 // 1000000, us2 % 1000000))
        m = k % 4
        if m == 0 and unit in UNITS[:4]:
            a = {"k": "date", "w": w1[:3], "cls": "Date"}
            b = {"k": "date", "w": w2[:3], "cls": "Date"}
        elif m == 1:
            a, b = mk_dt(NAIVE, w1, 0), mk_dt(NAIVE, w2, 0)
        else:
            zr = UTCZ if m == 2 else {"n": rnd.choice(names), "fo": 0}
            a, b = mk_dt(zr, w1, 0), mk_dt(zr, w2, 0)
        for (x, y, ab) in ((a, b, False), (b, a, False), (b, a, True)):
            ctx.emit("range", {"abs": ab, "unit": unit, "n": step}, [x, y])
        if unit == "days":
            # direct iteration (for d in interval), every orientation
            for (x, y, ab) in ((a, b, False), (b, a, False), (b, a, True)):
                ctx.emit("range", {"abs": ab, "unit": "days", "n": 1, "mode": "iter"}, [x, y])
