"""C20 - Time-of-day arithmetic wraps modulo 24 hours exactly.
Boundary times x amounts spanning several days with either sign by every entry point; timedeltas with a
day component; all pairs of a boundary set for diff; closest/farthest."""
from __future__ import annotations

TIMES = [(0, 0, 0, 0), (0, 0, 0, 1), (23, 59, 59, 999999), (12, 0, 0, 0), (11, 59, 59, 999999), (0, 0, 1, 0),
         (23, 0, 0, 0), (1, 2, 3, 456789), (13, 30, 30, 500000), (6, 0, 0, 999999)]
AMOUNTS = [(0, 0, 0, 1), (0, 0, 0, -1), (0, 0, 1, 0), (0, 0, -1, 0), (24, 0, 0, 0), (-24, 0, 0, 0), (23, 59, 59, 999999),
           (-23, -59, -59, -999999), (48, 0, 0, 1), (-49, 0, 0, -1), (1, -60, 0, 0), (0, 1440, 0, 0), (0, 0, 86399, 999999),
           (0, 0, 86400, 0), (100, -200, 300, -400), (0, 0, -172801, 5), (5, 30, 15, 250000), (-5, -30, -15, -250000),
           (0, 0, 0, 999999), (0, 0, 0, 1000000)]
ENTRIES = ("add", "subtract", "plus_td", "minus_td")


def T(w):
    return {"k": "time", "w": list(w), "cls": "Time"}


def drive(ctx):
    from .. import suite

    suite.trace_suite(ctx)      # the repository's own tests, recorded by the external tracer
    q = ctx.quick()
    rnd = ctx.rnd
    times = TIMES + [(rnd.randrange(24), rnd.randrange(60), rnd.randrange(60), rnd.randrange(10 ** 6)) for _ in range(6)]
    work = ctx.mine([(t, a) for t in times for a in AMOUNTS])
    n = 0
    for (t, (h, mi, s, us)) in work:
        for en in ENTRIES:
            n += 1
            r = ctx.emit("time_add", {"h": h, "mi": mi, "s": s, "us": us, "entry": en}, [T(t)])
            if en == "add" and not isinstance(r, Exception):
                ctx.emit("time_add", {"h": h, "mi": mi, "s": s, "us": us, "entry": "subtract"}, pre_objs=[r])
    # a pendulum Duration as the amount (+, -, Duration + Time): under a day either sign, and with whole days
    for k in range(120 if q else 2000):
        t = (rnd.randrange(24), rnd.randrange(60), rnd.randrange(60), rnd.randrange(10 ** 6))
        sg = rnd.choice((1, -1))
        a = {"h": sg * rnd.choice((0, 0, 1, 5, 23)), "mi": sg * rnd.choice((0, 1, 59, 61, 90)), "s": sg * rnd.choice((0, 1, 59, 60, 3599)),
             "us": sg * rnd.choice((0, 1, 999999, 500000)), "entry": ("plus_dur", "minus_dur")[k % 2]}
        if k % 10 == 0:
            a["h"] = sg * rnd.choice((24, 48, 25))
        ctx.emit("time_add", a, [T(t)])
    for k in range(60 if q else 1500):
        t = (rnd.randrange(24), rnd.randrange(60), rnd.randrange(60), rnd.randrange(10 ** 6))
        a = {"h": rnd.randrange(-100, 101), "mi": rnd.randrange(-5000, 5001), "s": rnd.randrange(-10 ** 6, 10 ** 6),
             "us": rnd.randrange(-10 ** 9, 10 ** 9), "entry": ENTRIES[k % 2]}
        ctx.emit("time_add", a, [T(t)])
        small = {"h": rnd.randrange(0, 24), "mi": 0, "s": rnd.randrange(0, 60), "us": rnd.randrange(0, 10 ** 6),
                 "entry": ENTRIES[2 + k % 2]}
        if small["h"] * 3600 + small["s"] < 86400:
            ctx.emit("time_add", small, [T(t)])
    pairs = ctx.mine([(a, b) for a in times for b in times])
    for (a, b) in pairs:
        for en in ("diff_default", "diff_abs", "diff_signed", "sub", "rsub_native", "sub_native"):
            ctx.emit("time_diff", {"entry": en}, [T(a), T(b)])
        c = rnd.choice(times)
        ctx.emit("time_closest", {}, [T(c), T(a), T(b)])
        ctx.emit("time_farthest", {}, [T(c), T(a), T(b)])
