"""Stimulus enumeration shared by the drivers.  Only *where to look* is decided here (which
transitions exist, which probe offsets around them); never an expected value."""
from __future__ import annotations

import datetime as _dt

from .. import zones as zm
from ..proj import E, i3_to_wall, mk_dt, sec_to_i3

UTCZ = {"n": "UTC", "fo": 0}
NAIVE = {"n": "naive", "fo": 0}
LO = (_dt.date(2, 1, 2).toordinal() - E) * 86400
HI = (_dt.date(9998, 12, 30).toordinal() - E) * 86400

FIXED_OFFSETS = [-86340, -43200, -19800, -12600, -3600, -1, 0, 1, 1800, 3600, 12600, 19800, 20700, 45900, 50400, 86340]
WHOLE_MINUTE_FIXED = [o for o in FIXED_OFFSETS if o % 60 == 0]


def real_zone_names(ctx):
    return sorted(k for k in ctx.zones if not k.startswith("Verif/"))


# Verif/BackToBack (two transitions closer together than the shift) is a model-checking-only zone:
# there CPython's zoneinfo is itself inconsistent (MC_Zones documents it), so no conformance
# verdict about pendulum can be drawn from it.
MC_ONLY = ("Verif/BackToBack",)


def synth_zone_names(ctx):
    return sorted(k for k in ctx.zones if k.startswith("Verif/") and k not in MC_ONLY)


def zone_transitions(ctx, name, rule_years=(2041, 2777, 5003, 9990)):
    """(utc_sec, off_before, off_after) of every explicit transition of the zone, plus the rule-era
    transitions of a few far years."""
    z = ctx.zones[name]
    out = [t for t in zm.transitions_utc(z) if LO < t[0] < HI]
    if z["rule"]["has"]:
        for y in rule_years:
            if y > z["ly"]:
                r = zm.rule_trs(z, (y,))
                (s1, o1, _d1), (s2, o2, _d2) = r
                out.append((s1, o2, o1))
                out.append((s2, o1, o2))
    return out


def probes(sec, before, after, us=(0, 1, 999999)):
    """instants around a transition: {-|gap|, -1s, -1us, 0, +1us, +1s, +|gap|} as I3"""
    g = abs(after - before) or 3600
    out = []
    for ds, u in ((-g, 0), (-g - 1, 999999), (-1, 0), (-1, 999999), (0, 0), (0, 1), (1, 0), (g - 1, 999999), (g, 0),
                  (g // 2, 500000)):
        out.append(sec_to_i3(sec + ds, u))
    return out


def utc_dt(i3):
    return mk_dt(UTCZ, i3_to_wall(i3), 0)


def anomalies(ctx, name, **kw):
    """gaps and overlaps of a zone in local time: (kind, wall_start_sec, wall_end_sec, utc_sec, before, after)
    wall seconds are 'local seconds since the epoch' of the anomaly's boundaries"""
    out = []
    for (sec, b, a) in zone_transitions(ctx, name, **kw):
        if a > b:
            out.append(("gap", sec + b, sec + a, sec, b, a))
        elif a < b:
            out.append(("overlap", sec + a, sec + b, sec, b, a))
    return out


def wall_of_localsec(ls, us=0):
    return i3_to_wall(sec_to_i3(ls, us))


def pick(rnd, seq, k):
    seq = list(seq)
    if len(seq) <= k:
        return seq
    return rnd.sample(seq, k)
