"""Paths and process bootstrap shared by every harness component."""
from __future__ import annotations

import fcntl
import hashlib
import os
import shutil
import subprocess
import sys

VERIF = os.path.dirname(os.path.dirname(os.path.abspath(__file__)))
REPO = os.environ.get("VERIF_REPO", "/repo")
BUILD = os.path.join(VERIF, "build")
SPEC = os.path.join(VERIF, "spec")
EVID = os.path.join(VERIF, "evidence")
PY = "/venv/bin/python"
TLA_CP = "/opt/veriftools/tla/tla2tools.jar:/opt/veriftools/tla/CommunityModules-deps.jar"
TZDIR = os.path.join(BUILD, "tzdir")
GUARD = "PENDULUM_VERIF_TRACE"


class Machinery(Exception):
    """A failure of the verification machinery itself (exit 2, never a VIOLATION)."""


def lock(name):
    os.makedirs(BUILD, exist_ok=True)
    f = open(os.path.join(BUILD, name + ".lock"), "w")
    fcntl.flock(f, fcntl.LOCK_EX)
    return f


def rust_hash():
    h = hashlib.sha256()
    root = os.path.join(REPO, "rust")
    for d, _dirs, files in sorted(os.walk(root)):
        if "/target" in d:
            continue
        for fn in sorted(files):
            if fn.endswith((".rs", ".toml", ".lock")):
                p = os.path.join(d, fn)
                h.update(os.path.relpath(p, root).encode())
                h.update(open(p, "rb").read())
    return h.hexdigest()[:16]


def build_rust():
    """Rebuild the compiled helpers from REPO/rust (working tree) if their sources changed.
    Returns the path of the .so, which workers load AS pendulum._pendulum."""
    hv = rust_hash()
    out = os.path.join(BUILD, "rust", hv, "lib_pendulum.so")
    if os.path.exists(out):
        return out
    lk = lock("rust")
    try:
        if os.path.exists(out):
            return out
        env = dict(os.environ, PYO3_PYTHON=PY, CARGO_NET_OFFLINE="true",
                   CARGO_TARGET_DIR=os.path.join(BUILD, "rust-target"))
        # cargo decides freshness by comparing source mtimes with its last build in the (shared) target directory:
        # a tree whose files are OLDER than that build (a checkout, an extracted archive) would be taken for
        # unchanged.  Build from a staged copy whose files are all new.
        stage = os.path.join(BUILD, "rust-src", hv)
        shutil.rmtree(stage, ignore_errors=True)
        shutil.copytree(os.path.join(REPO, "rust"), stage, copy_function=shutil.copyfile,
                        ignore=shutil.ignore_patterns("target"))
        try:
            p = subprocess.run(["cargo", "build", "--release", "--offline"], cwd=stage,
                               env=env, stdout=subprocess.PIPE, stderr=subprocess.STDOUT, text=True)
        finally:
            shutil.rmtree(stage, ignore_errors=True)
        if p.returncode != 0:
            raise Machinery("cargo build failed:\n" + p.stdout[-3000:])
        if "Compiling _pendulum" not in p.stdout and "Compiling pendulum" not in p.stdout:
            raise Machinery("cargo did not recompile the extension:\n" + p.stdout[-1500:])
        src = os.path.join(BUILD, "rust-target", "release", "lib_pendulum.so")
        os.makedirs(os.path.dirname(out), exist_ok=True)
        tmp = out + ".tmp%d" % os.getpid()
        with open(src, "rb") as a, open(tmp, "wb") as b:
            b.write(a.read())
        os.replace(tmp, out)
        # the lock file cargo may touch must not dirty the repository
        return out
    finally:
        lk.close()


def bootstrap(backend):
    """Called in a worker process BEFORE pendulum is imported.
    backend 'rs': compiled helpers (rebuilt from REPO/rust) ; 'py': pure Python."""
    assert "pendulum" not in sys.modules
    os.environ["PENDULUM_EXTENSIONS"] = "1" if backend == "rs" else "0"
    sys.path.insert(0, os.path.join(REPO, "src"))
    import zoneinfo

    if os.path.isdir(TZDIR):
        zoneinfo.reset_tzpath([TZDIR] + list(zoneinfo.TZPATH))
    if backend == "rs":
        so = os.environ.get("PV_RUST_SO") or build_rust()
        import importlib.machinery
        import importlib.util

        loader = importlib.machinery.ExtensionFileLoader("pendulum._pendulum", so)
        spec = importlib.util.spec_from_file_location("pendulum._pendulum", so, loader=loader)
        mod = importlib.util.module_from_spec(spec)
        loader.exec_module(mod)
        sys.modules["pendulum._pendulum"] = mod
    import pendulum

    if not pendulum.__file__.startswith(os.path.join(REPO, "src")):
        raise Machinery("pendulum imported from %s, not from %s" % (pendulum.__file__, REPO))
    import pendulum.helpers as H
    import pendulum.parsing as P

    if H.with_extensions != (backend == "rs") or P.with_extensions != (backend == "rs"):
        raise Machinery("backend selection failed")
    if backend == "rs" and "_pendulum" not in H.precise_diff.__module__ and "builtin" not in str(type(H.precise_diff)):
        raise Machinery("compiled helpers not in use")
    return pendulum
