"""Known findings: genuine defects of pendulum that are recorded rather than repaired.
The file /verif/known_findings.json is read only (never written at run time).

entry: {"id", "property", "status": "open"|"fixed", "what", "record",
        "match": {"op": [..], "clauses": [..], "labels_all": [..], "labels_none": [..], "backend": "rs"|"py"|null,
                  "where": {dotted.path: value}, "where_any": [{dotted.path: value}, ...]}}
A divergent event is covered iff EVERY failed clause of its verdict is covered by some open entry
of the same property whose op / labels / backend predicates hold for the event.  `fixed` entries
cover nothing."""
from __future__ import annotations

import json
import os

from .env import VERIF


def load():
    p = os.path.join(VERIF, "known_findings.json")
    if not os.path.exists(p):
        return {}
    return {e["id"]: e for e in json.load(open(p))["findings"]}


def _get(ev, path):
    x = ev
    for k in path.split("."):
        if isinstance(x, list):
            k = int(k)
            if k >= len(x):
                return None
            x = x[k]
        elif isinstance(x, dict):
            if k not in x:
                return None
            x = x[k]
        else:
            return None
    return x


def _matches(entry, prop, ev, clause):
    if entry["status"] != "open" or entry["property"] != prop:
        return False
    m = entry["match"]
    if "op" in m and ev["op"] not in m["op"]:
        return False
    if m.get("backend") and ev.get("bk") != m["backend"]:
        return False
    if "clauses" in m and clause not in m["clauses"]:
        return False
    labels = [str(x) for x in ev["verdict"]["c"]]
    if any(x not in labels for x in m.get("labels_all", [])):
        return False
    if any(x in labels for x in m.get("labels_none", [])):
        return False
    if "labels_any" in m and not any(x in labels for x in m["labels_any"]):
        return False
    # label_after: {"name": "value"} - the label following the marker `name` must equal `value`
    for name, val in m.get("label_after", {}).items():
        if name not in labels or labels.index(name) + 1 >= len(labels):
            return False
        got = labels[labels.index(name) + 1]
        if (got not in val) if isinstance(val, list) else (got != val):
            return False
    def holds(cond):
        for path, val in cond.items():
            got = _get(ev, path)
            if isinstance(val, list):
                if got not in val:
                    return False
            elif got != val:
                return False
        return True

    if not holds(m.get("where", {})):
        return False
    # where_any: a list of alternative conditions, one of which must hold
    if "where_any" in m and not any(holds(c) for c in m["where_any"]):
        return False
    return True


def classify(prop, bad_events, kf):
    """-> (known: {finding id: [events]}, fresh: [events])"""
    known, fresh = {}, []
    for ev in bad_events:
        hit = []
        ok = True
        for cl in ev["verdict"]["v"]:
            ids = [fid for fid, e in kf.items() if _matches(e, prop, ev, cl[0])]
            if not ids:
                ok = False
                break
            hit.append(ids[0])
        if ok and hit:
            for fid in set(hit):
                known.setdefault(fid, []).append(ev)
        else:
            fresh.append(ev)
    return known, fresh
