"""GR - graph replay, spec -> code.  TLC simulates the Session state machine (spec/Session.tla) on the
synthetic zones; every behaviour is replayed into the real library with the REAL OBJECTS threaded through a
register file that mirrors the spec's `regs`, so hidden state produced by one call (fold, tzinfo identity,
cached fields) is what the next call sees.  Each replayed call is logged as an ordinary event and judged by
Trace.tla; in addition the projection of every real result is compared with the spec's post-state."""
from __future__ import annotations

import json
import os
import re
import shutil
import subprocess

from . import env
from .proj import enc

OPS_OF = {"C01": {"in_tz"}, "C02": {"create", "set"}, "C03": {"add_fixed"}, "C04": {"add_cal"}, "C12": {"start_of", "end_of"},
          "C14": {"copy"}, "C16": {"next", "previous", "first_of", "last_of"}, "C05": {"iv_len"}, "C06": {"iv_comp"},
          "C19": {"range"}}
QUERIES = {"iv_len", "iv_comp", "range"}


def simulate(seed, num, depth, workdir, tag):
    meta = os.path.join(workdir, "sim-%s.meta" % tag)
    e = dict(os.environ, PV_ZONES=os.path.join(env.BUILD, "synth-zones.json"), PV_DEPTH="99")
    cmd = ["java", "-XX:+UseSerialGC", "-Xss16m", "-Xmx1g", "-cp", env.TLA_CP, "tlc2.TLC", "-workers", "1", "-metadir", meta,
           "-noGenerateSpecTE", "-simulate", "num=%d" % num, "-depth", str(depth), "-seed", str(seed), "-config", "Sim_Session.cfg",
           "MC_Session.tla"]
    p = subprocess.run(cmd, cwd=env.SPEC, env=e, stdout=subprocess.PIPE, stderr=subprocess.STDOUT, text=True, timeout=600)
    shutil.rmtree(meta, ignore_errors=True)
    behaviours, cur, prev = [], [], 0
    for line in p.stdout.splitlines():
        if not line.startswith('<<"STEP"'):
            continue
        m = re.match(r'<<"STEP", (\d+), (".*")>>$', line)
        if not m:
            continue
        level = int(m.group(1))
        st = json.loads(json.loads(m.group(2)))
        if level <= prev and cur:
            behaviours.append(cur)
            cur = []
        prev = level
        if st["last"]["op"] != "init":
            cur.append(st)
    if cur:
        behaviours.append(cur)
    if p.returncode != 0 or not behaviours:
        raise env.Machinery("Session simulation failed: " + p.stdout[-800:])
    return behaviours


def same(real, spec):
    """projection of the real object vs the spec's register value (zone, wall fields)"""
    if spec.get("k") != "dt":
        return True
    r = enc(real)
    return r.get("k") == "dt" and r["z"] == spec["z"] and r["w"] == spec["w"]


def replay(ctx, num=None, depth=8):
    mine = OPS_OF.get(ctx.prop, set())
    num = num or (30 if ctx.quick() else 300)
    bs = simulate(ctx.seed * 1000 + ctx.i * 2 + (1 if ctx.backend == "py" else 0) + 1, num, depth, ctx.workdir,
                  "%s-%d" % (ctx.backend, ctx.i))
    stats = {"gr_behaviours": 0, "gr_steps": 0, "gr_steps_logged": 0, "gr_post_state_equal": 0, "gr_post_state_differs": 0}
    for b in bs:
        stats["gr_behaviours"] += 1
        regs = {}
        for st in b:
            last = st["last"]
            op, a, src, dst = last["op"], dict(last["a"]), last["src"], last["dst"]
            if op == "set_week":
                continue                      # start_of/end_of events carry the configuration themselves
            if src != "-" and src not in regs:
                break                         # the real history diverged earlier (an exception): stop this behaviour
            pre = [regs[src]] if src != "-" else None
            if op in QUERIES:
                s2 = a.pop("src2")
                if s2 not in regs:
                    break
                stats["gr_steps"] += 1
                if op in mine:          # a query changes nothing: executed only for the property that judges it
                    ctx.emit(op, a, pre_objs=[regs[src], regs[s2]], log=True)
                    stats["gr_steps_logged"] += 1
                continue
            stats["gr_steps"] += 1
            res = ctx.emit(op, a, pre_objs=pre if pre is not None else [], log=op in mine)
            if op in mine:
                stats["gr_steps_logged"] += 1
            if op == "copy" and not isinstance(res, Exception):
                res = ctx.emit(op, dict(a, raw=True), pre_objs=pre, log=False)      # the copied OBJECT, to thread it on
            if isinstance(res, Exception) or isinstance(res, dict):
                regs.pop(dst, None)
                if isinstance(res, dict) and op == "copy":
                    pass
                break
            regs[dst] = res
            if same(res, st["regs"].get(dst, {})):
                stats["gr_post_state_equal"] += 1
            else:
                stats["gr_post_state_differs"] += 1
    for k, v in stats.items():
        ctx.extra[k] = ctx.extra.get(k, 0) + v
