"""Python twin of spec/IsoForms.tla RenderForm: turns a structured ISO 8601 form into text.
The spec renders the same form itself and rejects the event if the two texts differ."""
from __future__ import annotations

BASE = {"dk": "none", "ext": True, "y": 2000, "m": 1, "d": 1, "n": 1, "wk": 1, "wd": 1, "tk": "none", "h": 0, "mi": 0,
        "s": 0, "fd": [], "fsep": 46, "sep": 84, "ok": "none", "osg": 1, "oh": 0, "om": 0}


def form(**kw):
    f = dict(BASE)
    f.update(kw)
    return f


def render(f):
    dash = "-" if f["ext"] else ""
    col = ":" if f["ext"] else ""
    dk = f["dk"]
    d = {"none": "", "y": "%04d" % f["y"], "ym": "%04d-%02d" % (f["y"], f["m"]),
         "cal": "%04d%s%02d%s%02d" % (f["y"], dash, f["m"], dash, f["d"]),
         "ord": "%04d%s%03d" % (f["y"], dash, f["n"]),
         "week": "%04d%sW%02d" % (f["y"], dash, f["wk"]),
         "weekd": "%04d%sW%02d%s%d" % (f["y"], dash, f["wk"], dash, f["wd"])}[dk]
    tk = f["tk"]
    t = {"none": "", "h": "%02d" % f["h"], "hm": "%02d%s%02d" % (f["h"], col, f["mi"]),
         "hms": "%02d%s%02d%s%02d" % (f["h"], col, f["mi"], col, f["s"])}[tk]
    if tk == "hms" and f["fd"]:
        t += chr(f["fsep"]) + "".join(chr(c) for c in f["fd"])
    sg = "-" if f["osg"] < 0 else "+"
    t += {"none": "", "z": "Z", "h": "%s%02d" % (sg, f["oh"]), "hm": "%s%02d%s%02d" % (sg, f["oh"], col, f["om"])}[f["ok"]]
    sep = chr(f["sep"]) if dk != "none" and tk != "none" else ""
    return d + sep + t
