"""Export of the shipped locale tables as specification DATA (code-point arrays), read from the working
tree.  The spec decides WHICH entry must appear where; what an entry spells is the locale's business.
Plural / ordinal category functions are tabulated (0..1000 / 0..400)."""
from __future__ import annotations

import os

from .proj import cps

UNITS = ("year", "month", "week", "day", "hour", "minute", "second")
CATS = ("zero", "one", "two", "few", "many", "other")
BIG_COUNTS = (1001, 1002, 1011, 1100, 2000, 10000, 100000, 1000000, 1000001, 2000000, 3000000, 1234567, 10000000, 1000000000,
              2000000000, 999999, 1000002, 1000011, 1000021, 1000100)


def names():
    import pendulum.locales as L

    d = os.path.dirname(L.__file__)
    return sorted(n for n in os.listdir(d) if os.path.isdir(os.path.join(d, n)) and not n.startswith("_"))


def _t(x):
    return cps(x) if isinstance(x, str) else []


def _cat(fn, n):
    try:
        return str(fn(n))
    except Exception as e:  # noqa: BLE001
        return "ERR:" + type(e).__name__


def _bycat(d):
    """{category: template} -> record with every category present ([] = missing)"""
    d = d if isinstance(d, dict) else {}
    return {c: _t(d.get(c)) for c in CATS}


def export(name):
    """The tables are read from the locale's DATA module directly (pendulum/locales/<name>/locale.py): the Locale class
    - key look-up and its cache, plural(), ordinal() - is code under test, not a source of specification data."""
    from importlib import import_module

    data = import_module("pendulum.locales.%s.locale" % name).locale

    def g(key):
        x = data
        for part in key.split("."):
            if not isinstance(x, dict) or part not in x:
                return None
            x = x[part]
        return x

    class loc:          # noqa: N801 - the two category functions of the data module
        plural = staticmethod(data["plural"])
        ordinal = staticmethod(data["ordinal"])

    out = {
        "months_wide": [_t((g("translations.months.wide") or {}).get(m)) for m in range(1, 13)],
        "months_abbr": [_t((g("translations.months.abbreviated") or {}).get(m)) for m in range(1, 13)],
        "days_wide": [_t((g("translations.days.wide") or {}).get(d)) for d in range(7)],
        "days_abbr": [_t((g("translations.days.abbreviated") or {}).get(d)) for d in range(7)],
        "days_short": [_t((g("translations.days.short") or {}).get(d)) for d in range(7)],
        "am": _t(g("translations.day_periods.am")), "pm": _t(g("translations.day_periods.pm")),
        "first_day": int(g("translations.week_data.first_day") or 0),
        "ord_suffix": _bycat(g("custom.ordinal")),
        "ord_cat": [_cat(loc.ordinal, n) for n in range(0, 401)],
        "plural_cat": [_cat(loc.plural, n) for n in range(0, 1001)],
        "plural_big": [[n, _cat(loc.plural, n)] for n in BIG_COUNTS],
        "units": {u: _bycat(g("translations.units.%s" % u)) for u in UNITS},
        "relative": {u: {"future": _bycat(g("translations.relative.%s.future" % u)),
                         "past": _bycat(g("translations.relative.%s.past" % u))} for u in UNITS},
        "units_relative": {u: {"future": _bycat(g("custom.units_relative.%s.future" % u)),
                               "past": _bycat(g("custom.units_relative.%s.past" % u))} for u in UNITS},
        "ago": _t(g("custom.ago")), "from_now": _t(g("custom.from_now")), "after": _t(g("custom.after")),
        "before": _t(g("custom.before")), "few_second": _t(g("custom.units.few_second")),
        "date_formats": {k: _t(g("custom.date_formats.%s" % k)) for k in ("LTS", "LT", "L", "LL", "LLL", "LLLL")},
        "microsecond": _bycat(g("translations.units.microsecond")),
    }
    return out


def export_all():
    return {n: export(n) for n in names()}
