"""Operation registry: one entry per Session action / Trace op.
An event is (op, a = arguments, pre = projected argument values) -> post = projected result.
Everything needed to re-execute an event is in (op, a, pre), so a replay file is just an event.
The functions here call the REAL library and return the real result (or raise)."""
from __future__ import annotations

import contextlib
import datetime as _dt
from fractions import Fraction

from . import proj
from .proj import E, dec, enc, tzobj

OPS = {}


def op(name):
    def deco(fn):
        OPS[name] = fn
        return fn

    return deco


def P():
    import pendulum

    return pendulum


def rust_module():
    """the compiled helpers REBUILT from the working tree (injected by env.bootstrap in rs workers);
    never the stale prebuilt .so lying in the source tree"""
    import sys

    import pendulum.helpers as H

    return sys.modules.get("pendulum._pendulum") if H.with_extensions else None


def tzarg(a):
    """how the target zone is handed to the API: object (default) or name"""
    zr = a["tz"]
    if a.get("how") == "name" and zr["n"] not in ("", "naive"):
        return zr["n"]
    return tzobj(zr, a.get("zk", "pendulum"))


def ts_of(i):
    sec = (i[0] - E) * 86400 + i[1]
    if i[2]:
        return sec + i[2] / 1000000.0
    return sec


# ---------------------------------------------------------------- C01
@op("in_tz")
def _in_tz(a, pre):
    return getattr(pre[0], a.get("m", "in_tz"))(tzarg(a))


@op("astimezone")
def _astimezone(a, pre):
    return pre[0].astimezone(tzarg(a))


@op("from_timestamp")
def _from_timestamp(a, pre):
    t = ts_of(a["i"])
    if a.get("entry") == "fromtimestamp":
        return P().DateTime.fromtimestamp(t, tz=tzarg(a))
    if a.get("entry") == "default_utc":
        return P().from_timestamp(t)
    return P().from_timestamp(t, tz=tzarg(a))


@op("int_timestamp")
def _int_timestamp(a, pre):
    n = pre[0].int_timestamp
    return {"k": "ts", "v": [n // 86400 + E, n % 86400]}


@op("timestamp")
def _timestamp(a, pre):
    f = pre[0].timestamp() if a.get("m") != "float_timestamp" else pre[0].float_timestamp
    us = round(Fraction(f) * 1000000)
    sec, us = divmod(us, 1000000)
    return {"k": "ts", "v": [sec // 86400 + E, sec % 86400, us]}


def native_source(a):
    kind = a["kind"]
    w, f, zr = a["w"], a["f"], a["tz"]
    if kind == "zoneinfo":
        import zoneinfo

        return _dt.datetime(*w, tzinfo=zoneinfo.ZoneInfo(zr["n"]), fold=f)
    if kind == "pendulum":
        return _dt.datetime(*w, tzinfo=tzobj(zr), fold=f)
    if kind == "pytz":
        import pytz

        return pytz.timezone(zr["n"]).localize(_dt.datetime(*w), is_dst=(f == 0))
    if kind == "dateutil":
        import dateutil.tz

        return _dt.datetime(*w, tzinfo=dateutil.tz.gettz(zr["n"]), fold=f)
    if kind == "timezone":
        return _dt.datetime(*w, tzinfo=_dt.timezone(_dt.timedelta(seconds=zr["fo"])), fold=f)
    raise ValueError(kind)


@op("instance")
def _instance(a, pre):
    src = native_source(a)
    off = src.utcoffset()
    a["off"] = off.days * 86400 + off.seconds  # observation of the NATIVE object (its own instant)
    if a.get("m") == "DateTime.instance":
        return P().DateTime.instance(src)
    return P().instance(src)


# ---------------------------------------------------------------- C02
@op("create")
def _create(a, pre):
    p = P()
    w, f, strict, entry = a["w"], a["f"], a["strict"], a["entry"]
    if entry == "datetime":
        return p.datetime(*w, tz=tzarg(a), fold=f, raise_on_unknown_times=strict)
    if entry == "create":
        return p.DateTime.create(*w, tz=tzarg(a), fold=f, raise_on_unknown_times=strict)
    if entry == "datetime_pos":       # every argument by position
        return p.datetime(w[0], w[1], w[2], w[3], w[4], w[5], w[6], tzarg(a), f, strict)
    if entry == "create_pos":
        return p.DateTime.create(w[0], w[1], w[2], w[3], w[4], w[5], w[6], tzarg(a), f, strict)
    if entry == "tz_convert":
        return tzobj(a["tz"]).convert(_dt.datetime(*w, fold=f), raise_on_unknown_times=strict)
    if entry == "tz_convert_p":
        return tzobj(a["tz"]).convert(p.naive(*w, fold=f), raise_on_unknown_times=strict)
    if entry == "tz_datetime":
        return tzobj(a["tz"]).datetime(*w)
    if entry == "local":
        old = p.tz._local_timezone if hasattr(p.tz, "_local_timezone") else None
        p.set_local_timezone(tzobj(a["tz"]))
        try:
            return p.local(*w)
        finally:
            p.set_local_timezone(old)
    if entry == "parse_tz":
        s = "%04d-%02d-%02dT%02d:%02d:%02d" % tuple(w[:6])
        if w[6]:
            s += ".%06d" % w[6]
        return p.parse(s, tz=tzarg(a))
    raise ValueError(entry)


_F = ("year", "month", "day", "hour", "minute", "second", "microsecond")


@op("set")
def _set(a, pre):
    o, entry = a["o"], a["entry"]
    if entry == "on":
        return pre[0].on(o[0], o[1], o[2])
    if entry == "at":
        return pre[0].at(o[3], o[4], o[5], o[6])
    return pre[0].set(**{k: v for k, v in zip(_F, o) if v != -1})


@op("replace")
def _replace(a, pre):
    kw = {k: v for k, v in zip(_F, a["o"]) if v != -1}
    if a["f"] != -1:
        kw["fold"] = a["f"]
    return pre[0].replace(**kw)


@op("naive_in_tz")
def _naive_in_tz(a, pre):
    return pre[0].in_timezone(tzarg(a))


# ---------------------------------------------------------------- C03
@op("add_fixed")
def _add_fixed(a, pre):
    kw = {"hours": a["h"], "minutes": a["mi"], "seconds": a["s"], "microseconds": a["us"]}
    kw = {k: v for k, v in kw.items() if v or a.get("explicit0")}
    entry = a["entry"]
    if entry == "add":
        return pre[0].add(**kw)
    if entry == "subtract":
        return pre[0].subtract(**kw)
    td = _dt.timedelta(**kw)
    if entry == "plus_td":
        return pre[0] + td
    if entry == "minus_td":
        return pre[0] - td
    if entry == "radd_td":
        return td + pre[0]
    raise ValueError(entry)


# ---------------------------------------------------------------- C09 / C10 / C20
_DN = {"y": "years", "mo": "months", "w": "weeks", "d": "days", "h": "hours", "mi": "minutes", "s": "seconds",
       "ms": "milliseconds", "us": "microseconds"}


@op("dur_new")
def _dur_new(a, pre):
    kw = {_DN[k]: v for k, v in a["args"].items() if v or a.get("explicit0")}
    d = P().duration(**kw) if a.get("entry") == "duration" else P().Duration(**kw)
    # the derived components are computed lazily and cached: read them in the order the event asks for first
    for name in a.get("first", ()):
        getattr(d, name)
    return proj.enc_duration_full(d)


@op("dur_op")
def _dur_op(a, pre):
    o = a["o"]
    x = pre[0]
    y = pre[1] if len(pre) > 1 else None
    if o == "neg":
        return -x
    if o == "abs":
        return abs(x)
    if o == "add":
        return x + y
    if o == "radd":
        return y + x
    if o == "sub":
        return x - y
    if o == "mul_int":
        return x * a["n"]
    if o == "rmul_int":
        return a["n"] * x
    if o == "mul_float":
        return x * (a["num"] / a["den"])
    if o == "rmul_float":
        return (a["num"] / a["den"]) * x
    if o in ("mul_floatx", "rmul_floatx"):
        # any float factor, given by its repr; its exact value +-fa / 2^fe goes to the specification
        f = float(a["f"])
        num, den = abs(f).as_integer_ratio()
        a["fneg"] = f < 0
        a["fa"] = proj.cps(str(num))
        a["fe"] = den.bit_length() - 1
        assert den == 1 << a["fe"]
        return x * f if o == "mul_floatx" else f * x
    if o == "truediv_int":
        return x / a["n"]
    if o == "truediv_float":
        return x / (a["num"] / a["den"])
    if o == "floordiv_int":
        return x // a["n"]
    if o == "floordiv_dur":
        return x // y
    if o == "mod_dur":
        return x % y
    if o == "divmod_dur":
        return divmod(x, y)
    if o == "truediv_dur":
        return x / y
    if o == "cmp":
        nat = _dt.timedelta(*proj.td3(x))
        return {"k": "cmp", "eq": bool(x == y), "lt": bool(x < y), "le": bool(x <= y), "gt": bool(x > y),
                "ge": bool(x >= y), "hash_eq": hash(x) == hash(y), "hash_native": hash(x) == hash(nat)}
    raise ValueError(o)


def _tkw(a):
    return {k: v for k, v in (("hours", a["h"]), ("minutes", a["mi"]), ("seconds", a["s"]), ("microseconds", a["us"])) if v}


@op("time_add")
def _time_add(a, pre):
    t = pre[0]
    en = a["entry"]
    if en == "add":
        return t.add(**_tkw(a))
    if en == "subtract":
        return t.subtract(**_tkw(a))
    if en in ("plus_dur", "minus_dur", "radd_dur"):          # a pendulum Duration as the amount
        d = P().Duration(**_tkw(a))
        return t + d if en == "plus_dur" else (t - d if en == "minus_dur" else d + t)
    td = _dt.timedelta(**_tkw(a))
    if en == "plus_td":
        return t + td
    if en == "minus_td":
        return t - td
    if en == "radd_td":
        return td + t
    raise ValueError(en)


@op("time_diff")
def _time_diff(a, pre):
    t1, t2 = pre
    en = a["entry"]
    if en == "diff_default":
        r = t1.diff(t2)
    elif en == "diff_abs":
        r = t1.diff(t2, True)
    elif en == "diff_signed":
        r = t1.diff(t2, False)
    elif en == "sub":
        r = t2 - t1
    elif en == "rsub_native":
        r = _dt.time(t2.hour, t2.minute, t2.second, t2.microsecond) - t1
    elif en == "sub_native":
        r = t2 - _dt.time(t1.hour, t1.minute, t1.second, t1.microsecond)
    else:
        raise ValueError(en)
    if isinstance(r, _dt.timedelta):
        e = proj.enc_duration(r) if hasattr(r, "years") else enc(r)
        e["k"] = "dur"
        e["ts"] = proj.f2d3(r.total_seconds())
        return e
    return r


@op("time_closest")
def _time_closest(a, pre):
    return pre[0].closest(pre[1], pre[2])


@op("time_farthest")
def _time_farthest(a, pre):
    return pre[0].farthest(pre[1], pre[2])


# ---------------------------------------------------------------- C14
@op("copy")
def _copy(a, pre):
    import copy
    import pickle

    x = pre[0]
    how = a["how"]
    if how == "copy":
        y = copy.copy(x)
    elif how == "deepcopy":
        y = copy.deepcopy(x)
    elif how in ("deepcopy-pair", "pickle-pair"):
        # two values cloned TOGETHER (one memo / one pickle stream): the second one is looked at
        pair = copy.deepcopy([pre[0], pre[1]]) if how == "deepcopy-pair" else pickle.loads(pickle.dumps((pre[0], pre[1]), protocol=4))
        x, y = pre[1], pair[1]
    else:
        y = pickle.loads(pickle.dumps(x, protocol=int(how[-1])))
    if a.get("raw"):
        return y
    r = enc(y)
    if r["k"] == "dur" and hasattr(y, "total_seconds"):
        r["ts"] = proj.f2d3(y.total_seconds())
    try:
        r["eq"] = bool(y == x)
    except Exception:  # noqa: BLE001
        r["eq"] = False
    r["same_type"] = type(y) is type(x)
    if isinstance(x, (_dt.datetime, _dt.time)):
        try:
            r["same_tzname"] = x.tzname() == y.tzname() and x.utcoffset() == y.utcoffset()
        except Exception:  # noqa: BLE001
            r["same_tzname"] = False
    return r


# ---------------------------------------------------------------- C19
RANGE_CAP = 12000


@op("range")
def _range(a, pre):
    p = P()
    iv = p.interval(pre[0], pre[1], absolute=a["abs"])
    it = iter(iv) if a.get("mode") == "iter" else iv.range(a["unit"], a["n"])
    vals = []
    capped = False
    for v in it:
        vals.append(v)
        if len(vals) >= RANGE_CAP:
            capped = True
            break
    n = len(vals)
    idx = sorted(set(list(range(min(n, 5))) + list(range(max(0, n - 5), n)) + [n // 2, n // 3]))
    idx = [k for k in idx if 0 <= k < n]
    last = vals[-1] if vals else None
    return {"k": "range", "count": n, "capped": capped, "items": [[k, enc(vals[k])] for k in idx],
            "end_yielded": bool(vals) and not capped and _same_point(last, iv.end)}


def _same_point(x, y):
    if isinstance(x, _dt.datetime):
        return (x - y).total_seconds() == 0 if x.tzinfo is not None else x == y
    return x == y


@op("contains")
def _contains(a, pre):
    iv = P().interval(pre[0], pre[1], absolute=a["abs"])
    return {"k": "bool", "v": bool(pre[2] in iv)}


# ---------------------------------------------------------------- C07
def _try(fn, *a, **kw):
    try:
        return enc(fn(*a, **kw))
    except (KeyboardInterrupt, SystemExit):
        raise
    except BaseException as e:  # noqa: BLE001
        return enc(e)


def _lowlevel():
    import pendulum.parsing.iso8601 as PY

    RS = rust_module()
    return PY.parse_iso8601, (RS.parse_iso8601 if RS else None)


@op("iso_parse")
def _iso_parse(a, pre):
    from . import isoforms

    text = isoforms.render(a["form"])
    a["text"] = proj.cps(text)
    py, rs = _lowlevel()
    kw = {"exact": a["exact"]}
    if a["tz"]["n"] != "UTC":
        kw["tz"] = tzobj(a["tz"])
    r = {"k": "parsed", "top": _try(P().parse, text, **kw), "py": _try(py, text)}
    r["rs"] = _try(rs, text) if rs else r["py"]
    return r


@op("iso_year_scan")
def _iso_year_scan(a, pre):
    y, dk, ext, which = a["y"], a["dk"], a["ext"], a["which"]
    py, rs = _lowlevel()
    fn = {"top": lambda t: P().parse(t, exact=True), "py": py, "rs": rs or py}[which]
    d = _dt.date(y, 1, 1)
    dash = "-" if ext else ""
    out, texts = [], []
    while d.year == y:
        if dk == "cal":
            t = "%04d%s%02d%s%02d" % (d.year, dash, d.month, dash, d.day)
        elif dk == "ord":
            t = "%04d%s%03d" % (d.year, dash, d.timetuple().tm_yday)
        else:
            iy, iw, iwd = d.isocalendar()
            t = "%04d%sW%02d%s%d" % (iy, dash, iw, dash, iwd)
        texts.append(t)
        try:
            v = fn(t)
            out.append([v.year, v.month, v.day] if hasattr(v, "year") and not hasattr(v, "hour") else
                       ([v.year, v.month, v.day] if hasattr(v, "year") else [-2, -2, -2]))
        except ValueError:
            out.append([-1, -1, -1])
        if d == _dt.date.max:
            break
        d += _dt.timedelta(days=1)
    n = len(texts)
    ks = sorted({1, max(1, n // 2), n, 59 if n > 59 else 1, 60 if n > 60 else 1})
    return {"k": "scan", "v": out, "samples": [[k, proj.cps(texts[k - 1])] for k in ks]}


@op("iso_roundtrip")
def _iso_roundtrip(a, pre):
    x = pre[0]
    fmt = a["fmt"]
    text = {"isoformat": x.isoformat, "str": x.__str__, "iso8601": x.to_iso8601_string, "rfc3339": x.to_rfc3339_string,
            "atom": x.to_atom_string, "w3c": x.to_w3c_string}[fmt]()
    kw = {}
    if a.get("tz") and a["tz"]["n"] != "UTC":
        kw["tz"] = tzobj(a["tz"])          # must be ignored: every rendering carries its offset
    return {"k": "rt", "text": proj.cps(text), "parsed": _try(P().parse, text, **kw)}


# ---------------------------------------------------------------- C13
def _enc_any_duration(d):
    """pendulum Duration or the compiled parser's Duration record -> {"k":"dur", years, months, r3}"""
    if isinstance(d, _dt.timedelta):
        r = enc(d)
        return r
    if hasattr(d, "remaining_seconds") and hasattr(d, "years"):
        td = _dt.timedelta(weeks=d.weeks, days=d.remaining_days if hasattr(d, "remaining_days") else d.days,
                           hours=d.hours, minutes=d.minutes, seconds=d.remaining_seconds, microseconds=d.microseconds)
        td = td + _dt.timedelta(days=365 * d.years + 30 * d.months)
        return {"k": "dur", "cls": type(d).__name__, "years": int(d.years), "months": int(d.months), "r3": proj.td3(td),
                "weeks": int(d.weeks), "raw": [int(d.weeks), int(d.days), int(d.hours), int(d.minutes), int(d.seconds),
                                               int(d.microseconds)]}
    return enc(d)


def _try_dur(fn, text):
    try:
        r = _enc_any_duration(fn(text))
        proj.chk(r)
        return r
    except (KeyboardInterrupt, SystemExit):
        raise
    except BaseException as e:  # noqa: BLE001
        return enc(e)


@op("dur_parse")
def _dur_parse(a, pre):
    text = proj.uncps(a["text"])
    py, rs = _lowlevel()
    r = {"k": "parsed", "top": _try_dur(P().parse, text), "py": _try_dur(py, text)}
    r["rs"] = _try_dur(rs, text) if rs else r["py"]
    return r


@op("iv_parse")
def _iv_parse(a, pre):
    text = proj.uncps(a["t1"]) + "/" + proj.uncps(a["t2"])
    if a.get("tz"):
        return P().parse(text, tz=tzarg(a))        # end-points written without an offset are wall times of this zone
    return P().parse(text)


# ---------------------------------------------------------------- C17
def _enc_parsed(v):
    if hasattr(v, "remaining_seconds") or isinstance(v, _dt.timedelta) and not hasattr(v, "start"):
        r = _enc_any_duration(v)
    else:
        r = enc(v)
    try:
        proj.chk(r)
    except OverflowError:
        r = {"k": r.get("k", "other"), "cls": r.get("cls", "?"), "unencodable": True, "w": [], "r3": [0, 0, 0], "years": 0,
             "months": 0, "off": 0, "z": {"n": "?", "fo": 0}}
    return r


def _try_any(fn, *a, **kw):
    try:
        return _enc_parsed(fn(*a, **kw))
    except (KeyboardInterrupt, SystemExit):
        raise
    except BaseException as e:  # noqa: BLE001
        return enc(e)


@op("parse_any")
def _parse_any(a, pre):
    text = proj.uncps(a["text"])
    o = a["opts"]
    kw = {"exact": o["exact"], "strict": o["strict"]}
    if o["tz"]["n"] != "UTC":
        kw["tz"] = tzobj(o["tz"])
    kw["day_first"] = o["day_first"]
    kw["year_first"] = o["year_first"]
    py, rs = _lowlevel()
    r = {"k": "parsed", "top": _try_any(P().parse, text, **kw), "py": _try_any(py, text)}
    r["rs"] = _try_any(rs, text) if rs else r["py"]
    return r


# ---------------------------------------------------------------- C08 / C18
def fmt_string(items):
    out = ""
    for it in items:
        if it[0] == "tok":
            out += it[1]
        elif it[0] == "lit":
            out += proj.uncps(it[1])
        else:
            out += "[" + proj.uncps(it[1]) + "]"
    return out


@contextlib.contextmanager
def default_locale(p, a):
    """a["via"] == "default": the locale is made the process-wide default (set_locale) and NOT passed to the call"""
    if a.get("via") == "default":
        p.set_locale(a["locale"])
        try:
            yield {}
        finally:
            p.set_locale("en")
    else:
        yield {"locale": a["locale"]}


@op("format")
def _format(a, pre):
    x = pre[0]
    fmt = fmt_string(a["items"])
    a["fmt"] = proj.cps(fmt)
    nm = x.timezone_name if hasattr(x, "timezone_name") else None
    a["zname"] = proj.cps(nm or "")
    m = a["method"]
    if m == "format":
        with default_locale(P(), a) as kw:
            return x.format(fmt, **kw)
    if a.get("proc_locale"):          # the named helpers are fixed compositions: not affected by the process-wide locale
        P().set_locale(a["proc_locale"])
        try:
            return getattr(x, m)()
        finally:
            P().set_locale("en")
    return getattr(x, m)()


@op("from_format")
def _from_format(a, pre):
    p = P()
    x = pre[0]
    fmt = fmt_string(a["items"])
    a["fmt"] = proj.cps(fmt)
    a["zname"] = proj.cps(x.timezone_name or "")
    text = x.format(fmt, locale=a["locale"])
    if a["kind"] == "mismatch":
        bad = a["mutate"]
        if bad == -1:
            text2 = "x " + text                      # junk in front
        elif bad == -2:
            text2 = text + " 1"                      # junk behind
        elif bad == -3:
            text2 = text[:4] + text                  # extra leading digits / a duplicated head
        else:
            text2 = text[:bad % (len(text) + 1)] + "~" + text[bad % (len(text) + 1):]
    else:
        text2 = text
    now = p.DateTime(*a["now"], tzinfo=p.UTC)
    old = p.now
    p.now = lambda tz=None: now if tz is None else now.in_timezone(tz)
    try:
        try:
            with week_config(p, a.get("wcfg")):        # parsing must not depend on the process-wide week configuration
                back = p.from_format(text2, fmt, locale=a["locale"]) if a["locale"] != "en" or a.get("pass_locale") \
                    else p.from_format(text2, fmt)
            back = enc(back)
        except Exception as e:  # noqa: BLE001
            back = enc(e)
    finally:
        p.now = old
    return {"k": "ff", "text": proj.cps(text), "back": back}


@op("locale_tables")
def _locale_tables(a, pre):
    """no call: the locale's exported tables (PV_LOCALES) are judged against the CLDR rules of the specification;
    the one thing executed is the look-up path of the Locale class, which must agree with the data module"""
    from pendulum.locales.locale import Locale

    loc = Locale.load(a["locale"])
    return {"k": "tables", "plural_via_class": [str(loc.plural(n)) for n in (0, 1, 2, 5, 11, 21, 100, 101, 102, 111, 1000)],
            "ordinal_via_class": [str(loc.ordinal(n)) for n in (0, 1, 2, 3, 8, 11, 21, 22, 23, 80, 101, 111)]}


@op("humanize")
def _humanize(a, pre):
    p = P()
    x, y = pre
    en = a["entry"]
    if en == "time_diff_for_humans":
        # two times of day: the components are computed here from the fields, by plain integer arithmetic
        us = abs(((y.hour - x.hour) * 60 + (y.minute - x.minute)) * 60 + (y.second - x.second)) * 10 ** 6 + 0
        d_us = ((y.hour * 60 + y.minute) * 60 + y.second) * 10 ** 6 + y.microsecond - (((x.hour * 60 + x.minute) * 60 + x.second) * 10 ** 6 + x.microsecond)
        sec = abs(d_us) // 10 ** 6
        a["comps"] = [0, 0, 0, 0, sec // 3600, sec % 3600 // 60, sec % 60]
        a["invert"] = d_us < 0
        return x.diff_for_humans(y, absolute=a["absolute"], locale=a["locale"])
    if en == "date_diff_for_humans":
        # a Date against a Date, a DateTime or a native date / datetime: only the dates count
        yd = p.Date(y.year, y.month, y.day)
        iv_probe = p.Interval(x, yd, absolute=True)
        a["comps"] = [abs(int(v)) for v in (iv_probe.years, iv_probe.months, iv_probe.weeks, iv_probe.remaining_days, 0, 0, 0)]
        a["invert"] = bool(x > yd)
        other = {"pendulum": y, "native": _native(y)}[a.get("other", "pendulum")]
        return x.diff_for_humans(other, absolute=a["absolute"], locale=a["locale"])
    iv_probe = p.Interval(x, y, absolute=True)
    a["comps"] = [abs(int(v)) for v in (iv_probe.years, iv_probe.months, iv_probe.weeks, iv_probe.remaining_days, iv_probe.hours,
                                         iv_probe.minutes, iv_probe.remaining_seconds)]
    a["invert"] = bool(iv_probe.invert)
    if en == "format_diff":
        return p.format_diff(x.diff(y), a["is_now"], a["absolute"], a["locale"])
    if en == "diff_for_humans":
        with default_locale(p, a) as kw:
            return x.diff_for_humans(y, absolute=a["absolute"], **kw)
    if en == "diff_for_humans_now":
        old = p.DateTime.now
        try:
            p.DateTime.now = classmethod(lambda cls, tz=None: y if tz is None else y.in_timezone(tz))
            return x.diff_for_humans(absolute=a["absolute"], locale=a["locale"])
        finally:
            p.DateTime.now = old
    raise ValueError(en)


@op("in_words")
def _in_words(a, pre):
    p = P()
    en = a["entry"]
    sep = proj.uncps(a["sep"])
    if en == "duration":
        d = pre[0]
    else:
        d = p.Interval(pre[0], pre[1])
    a["comps"] = [int(v) for v in (d.years, d.months, d.weeks, d.remaining_days, d.hours, d.minutes, d.remaining_seconds)]
    with default_locale(p, a) as kw:
        return d.in_words(separator=sep, **kw)


# ---------------------------------------------------------------- C11
class _HalfYearDst(_dt.tzinfo):
    """a hand-written tzinfo: +01:00, +02:00 from April to September (utcoffset(None) is None, as for any DST zone)"""

    def utcoffset(self, d):
        if d is None:
            return None
        return _dt.timedelta(hours=2 if 4 <= d.month <= 9 else 1)

    def dst(self, d):
        if d is None:
            return None
        return _dt.timedelta(hours=1 if 4 <= d.month <= 9 else 0)

    def tzname(self, d):
        return "HYD"


def _twin(x):
    """the native object with the same fields and tzinfo (zoneinfo / datetime.timezone), same fold"""
    import zoneinfo

    if isinstance(x, _dt.datetime):
        tz = x.tzinfo
        if tz is not None:
            zr, _k = proj.zref(tz)
            # named zones: the zoneinfo tzinfo of the same key; fixed offsets: the very same tzinfo object
            tz = zoneinfo.ZoneInfo(zr["n"]) if zr["n"] not in ("", "?") else tz
        return _dt.datetime(x.year, x.month, x.day, x.hour, x.minute, x.second, x.microsecond, tzinfo=tz, fold=x.fold)
    if isinstance(x, _dt.date):
        return _dt.date(x.year, x.month, x.day)
    return _dt.time(x.hour, x.minute, x.second, x.microsecond, tzinfo=x.tzinfo)


def _cmp6(a, b):
    out = []
    for f in (lambda: a < b, lambda: a <= b, lambda: a > b, lambda: a >= b, lambda: a == b, lambda: a != b):
        try:
            out.append(bool(f()))
        except Exception:  # noqa: BLE001
            out.append(False)
    return out


@op("native_acc")
def _native_acc(a, pre):
    p = P()
    x = pre[0]
    t = _twin(x)
    neq, bad, xneq = [], [], []
    res = {"k": "nat"}

    def same(name, f, proj_=None):
        try:
            vx = f(x)
        except Exception as e:  # noqa: BLE001
            vx = ("EXC", type(e).__name__)
        try:
            vt = f(t)
        except Exception as e:  # noqa: BLE001
            vt = ("EXC", type(e).__name__)
        if vx != vt:
            neq.append(name)
        return vx

    def vkey(v):
        """a date / time / datetime result reduced to what the native class defines: fields, offset, zone name"""
        if isinstance(v, _dt.datetime):
            return ("dt", v.year, v.month, v.day, v.hour, v.minute, v.second, v.microsecond, v.utcoffset(), v.tzinfo is None)
        if isinstance(v, _dt.date):
            return ("d", v.year, v.month, v.day)
        if isinstance(v, _dt.time):
            return ("t", v.hour, v.minute, v.second, v.microsecond, v.utcoffset(), v.tzinfo is None)
        return v

    def samev(name, f, g=None):
        """the same call on the pendulum object / class and on the native one gives the same value"""
        try:
            vx = vkey(f(x))
        except Exception as e:  # noqa: BLE001
            vx = ("EXC", type(e).__name__)
        try:
            vt = vkey((g or f)(t))
        except Exception as e:  # noqa: BLE001
            vt = ("EXC", type(e).__name__)
        if vx != vt:
            xneq.append(name)

    utc = _dt.timezone.utc
    plus = _dt.timezone(_dt.timedelta(hours=5, minutes=30))

    def typed(name, f, want):
        try:
            v = f()
            if type(v).__name__ != want:
                bad.append([name, type(v).__name__])
        except Exception as e:  # noqa: BLE001
            bad.append([name, "EXC:" + type(e).__name__])

    if isinstance(x, _dt.datetime):
        res["iso"] = proj.cps(same("isoformat", lambda v: v.isoformat()))
        res["str"] = proj.cps(same("isoformat-space", lambda v: v.isoformat(" ")))
        same("strftime", lambda v: v.strftime("%Y-%m-%d %H:%M:%S.%f %Z %z %j %A %a %B %b %y %I %p %U %W %G %V %u"))
        res["ord"] = same("toordinal", lambda v: v.toordinal())
        res["wd"] = same("weekday", lambda v: v.weekday())
        res["iwd"] = same("isoweekday", lambda v: v.isoweekday())
        res["isocal"] = list(same("isocalendar", lambda v: tuple(v.isocalendar())))
        res["tt"] = list(same("timetuple", lambda v: tuple(v.timetuple())))
        res["utt"] = list(same("utctimetuple", lambda v: tuple(v.utctimetuple())))
        same("timestamp", lambda v: v.timestamp())
        off = same("utcoffset", lambda v: v.utcoffset())
        res["off"] = [0, 0] if off is None else [1, off.days * 86400 + off.seconds]
        nm = same("tzname", lambda v: v.tzname())
        res["abbr"] = proj.cps(nm or "")
        same("dst", lambda v: v.dst())
        same("ctime", lambda v: v.ctime())
        same("date", lambda v: (v.date().year, v.date().month, v.date().day))
        same("time", lambda v: (v.time().hour, v.time().minute, v.time().second, v.time().microsecond))
        same("timetz", lambda v: (v.timetz().hour, v.timetz().microsecond, v.timetz().utcoffset()))
        if x.tzinfo is not None:
            # fromtimestamp of this very instant in this zone: fields and offset as the standard library gives them
            try:
                ts = t.timestamp()
                a_ = type(x).fromtimestamp(ts, tz=x.tzinfo)
                b_ = _dt.datetime.fromtimestamp(ts, tz=t.tzinfo)
                if (tuple(a_.timetuple())[:6], a_.microsecond, a_.utcoffset()) != (tuple(b_.timetuple())[:6], b_.microsecond, b_.utcoffset()):
                    neq.append("fromtimestamp")
            except Exception as e:  # noqa: BLE001
                neq.append("fromtimestamp:" + type(e).__name__)
        if x.tzinfo is not None:
            # astimezone(target) for targets of every kind: fields, offset, zone name and dst as the native object gives them
            import zoneinfo

            def akey(v):
                return (v.year, v.month, v.day, v.hour, v.minute, v.second, v.microsecond, v.utcoffset(), v.tzname(), v.dst())

            def fkey(v):
                return (v.year, v.month, v.day, v.hour, v.minute, v.second, v.microsecond, v.utcoffset())

            for nm, tz in (("utc", _dt.timezone.utc), ("est", _dt.timezone(_dt.timedelta(hours=-5), "EST")),
                           ("odd", _dt.timezone(_dt.timedelta(hours=5, minutes=45))),
                           ("zi-ny", zoneinfo.ZoneInfo("America/New_York")), ("zi-paris", zoneinfo.ZoneInfo("Europe/Paris")),
                           ("zi-lh", zoneinfo.ZoneInfo("Australia/Lord_Howe")), ("p-chicago", p.timezone("America/Chicago"))):
                same("astimezone-" + nm, lambda v, tz=tz: akey(v.astimezone(tz)))
            same("astimezone-custom", lambda v: fkey(v.astimezone(_HalfYearDst())))
            same("astimezone-no-argument", lambda v: fkey(v.astimezone()))          # the system's local zone
            same("astimezone-none", lambda v: fkey(v.astimezone(None)))
        d_, t_ = x.date(), x.time()
        res["date"] = [type(d_).__name__, [d_.year, d_.month, d_.day]]
        res["time"] = [type(t_).__name__, [t_.hour, t_.minute, t_.second, t_.microsecond]]
        td = _dt.timedelta(hours=5, seconds=1)
        typed("astimezone", lambda: x.astimezone(_dt.timezone.utc) if x.tzinfo is not None else x.astimezone(), "DateTime")
        typed("replace", lambda: x.replace(microsecond=5), "DateTime")
        typed("+", lambda: x + td, "DateTime")
        typed("-", lambda: x - td, "DateTime")
        typed("r+", lambda: td + x, "DateTime")
        typed("fromtimestamp", lambda: type(x).fromtimestamp(86400 * 365.25 * 30, tz=p.UTC), "DateTime")
        typed("utcfromtimestamp", lambda: type(x).utcfromtimestamp(1e9), "DateTime")
        typed("fromordinal", lambda: type(x).fromordinal(730000), "DateTime")
        typed("combine", lambda: type(x).combine(_dt.date(2020, 1, 2), _dt.time(3, 4)), "DateTime")
        typed("strptime", lambda: type(x).strptime("2020-01-02 03:04:05", "%Y-%m-%d %H:%M:%S"), "DateTime")
        typed("now", lambda: type(x).now(), "DateTime")
        typed("today", lambda: type(x).today(), "DateTime")
        typed("date()", lambda: x.date(), "Date")
        typed("time()", lambda: x.time(), "Time")
        typed("min", lambda: type(x).min, "DateTime")
        typed("max", lambda: type(x).max, "DateTime")
        # class methods and tzinfo replacement, value by value against the native class
        samev("replace-tzinfo-none", lambda v: v.replace(tzinfo=None))
        samev("replace-tzinfo-utc", lambda v: v.replace(tzinfo=utc))
        samev("replace-tzinfo-fixed", lambda v: v.replace(tzinfo=plus))
        if x.tzinfo is None:
            samev("replace-fields", lambda v: v.replace(microsecond=(v.microsecond + 1) % 1000000, minute=(v.minute + 7) % 60))
        ts_ = (x.toordinal() - 719163) * 86400 + x.hour * 3600 + x.minute * 60 + x.second + 0.25
        samev("cls-fromtimestamp-utc", lambda v: type(v).fromtimestamp(ts_, tz=utc))
        samev("cls-fromtimestamp-fixed", lambda v: type(v).fromtimestamp(ts_ + 0.5, tz=plus))
        samev("cls-utcfromtimestamp", lambda v: type(v).utcfromtimestamp(ts_))
        samev("cls-fromordinal", lambda v: type(v).fromordinal(x.toordinal()))
        samev("cls-combine", lambda v: type(v).combine(_dt.date(x.year, x.month, x.day), _dt.time(x.hour, x.minute, x.second, x.microsecond)))
        samev("cls-combine-tz", lambda v: type(v).combine(_dt.date(x.year, x.month, x.day), _dt.time(x.hour, x.minute, x.second, x.microsecond, tzinfo=plus)))
        samev("cls-combine-tzarg", lambda v: type(v).combine(_dt.date(x.year, x.month, x.day), _dt.time(x.hour, x.minute), utc))
        txt = "%04d-%02d-%02d %02d:%02d:%02d.%06d" % (x.year, x.month, x.day, x.hour, x.minute, x.second, x.microsecond)
        # pendulum's documented default: a value built without zone information is in UTC
        samev("cls-strptime", lambda v: type(v).strptime(txt, "%Y-%m-%d %H:%M:%S.%f"),
              lambda v: type(v).strptime(txt, "%Y-%m-%d %H:%M:%S.%f").replace(tzinfo=utc))
        samev("cls-strptime-z", lambda v: type(v).strptime(txt + " +0530", "%Y-%m-%d %H:%M:%S.%f %z"))
        samev("cls-fromisoformat", lambda v: type(v).fromisoformat(txt.replace(" ", "T") + "+05:30"))
        samev("timetz-replace", lambda v: v.timetz().replace(tzinfo=None))
    elif isinstance(x, _dt.date):
        res["iso"] = proj.cps(same("isoformat", lambda v: v.isoformat()))
        same("strftime", lambda v: v.strftime("%Y-%m-%d %j %A %B %U %W %G %V %u"))
        res["ord"] = same("toordinal", lambda v: v.toordinal())
        res["wd"] = same("weekday", lambda v: v.weekday())
        res["iwd"] = same("isoweekday", lambda v: v.isoweekday())
        res["isocal"] = list(same("isocalendar", lambda v: tuple(v.isocalendar())))
        same("timetuple", lambda v: tuple(v.timetuple()))
        same("ctime", lambda v: v.ctime())
        typed("replace", lambda: x.replace(day=1), "Date")
        typed("+", lambda: x + _dt.timedelta(days=3), "Date")
        typed("-", lambda: x - _dt.timedelta(days=3), "Date")
        typed("fromordinal", lambda: type(x).fromordinal(730000), "Date")
        typed("fromtimestamp", lambda: type(x).fromtimestamp(1e9), "Date")
        typed("today", lambda: type(x).today(), "Date")
        samev("replace-year", lambda v: v.replace(year=2000 + v.year % 400))
        samev("replace-month", lambda v: v.replace(month=1 + v.month % 12, day=min(v.day, 28)))
        samev("replace-day", lambda v: v.replace(day=1 + v.day % 28))
        samev("cls-fromordinal", lambda v: type(v).fromordinal(x.toordinal()))
        samev("cls-fromordinal-1", lambda v: type(v).fromordinal(max(1, x.toordinal() - 1)))
        samev("cls-fromisoformat", lambda v: type(v).fromisoformat(x.isoformat()))
        samev("cls-fromisocalendar", lambda v: type(v).fromisocalendar(*tuple(x.isocalendar())))
        samev("cls-fromtimestamp", lambda v: type(v).fromtimestamp((x.toordinal() - 719163) * 86400 + 43200))
    else:
        res["iso"] = proj.cps(same("isoformat", lambda v: v.isoformat()))
        same("strftime", lambda v: v.strftime("%H:%M:%S.%f %I %p"))
        same("utcoffset", lambda v: v.utcoffset())
        same("tzname", lambda v: v.tzname())
        same("dst", lambda v: v.dst())
        typed("replace", lambda: x.replace(minute=1), "Time")
        samev("replace-hour", lambda v: v.replace(hour=(v.hour + 1) % 24))
        samev("replace-minute-second", lambda v: v.replace(minute=(v.minute + 1) % 60, second=(v.second + 59) % 60))
        samev("replace-microsecond", lambda v: v.replace(microsecond=(v.microsecond + 1) % 1000000))
        samev("replace-tzinfo-none", lambda v: v.replace(tzinfo=None))
        samev("replace-tzinfo-utc", lambda v: v.replace(tzinfo=utc))
        samev("replace-tzinfo-fixed", lambda v: v.replace(hour=3, tzinfo=plus))
        samev("cls-fromisoformat", lambda v: type(v).fromisoformat(x.isoformat()))
    # the str() / format() protocols: as the native object; a pendulum format spec goes to format(), for_json is isoformat
    same("str()", lambda v: str(v))
    same("format-empty", lambda v: format(v, ""))
    same("format-percent", lambda v: format(v, "%H:%M:%S" if isinstance(v, _dt.time) else "%Y-%m-%d %j"))
    # strftime specs with flags (glibc extensions), exactly as the native __format__ passes them on
    same("format-percent-flags", lambda v: format(v, "%-H|%_M|%%" if isinstance(v, _dt.time) else "%-d|%e|%-m|%%|%_j"))
    same("strftime-flags", lambda v: v.strftime("%-H|%_M|%%" if isinstance(v, _dt.time) else "%-d|%e|%-m|%%|%_j"))
    try:
        if not isinstance(x, _dt.time) and format(x, "YYYY-MM-DD") != x.format("YYYY-MM-DD"):
            xneq.append("format-spec")
        if x.for_json() != x.isoformat():
            xneq.append("for_json")
    except Exception as e:  # noqa: BLE001
        xneq.append("format-protocol:" + type(e).__name__)
    try:
        res["eq_twin"] = bool(x == t) and bool(t == x)
        res["hash_twin"] = hash(x) == hash(t)
    except Exception:  # noqa: BLE001
        res["eq_twin"] = res["hash_twin"] = False
    res["neq"] = neq
    res["xneq"] = xneq
    res["badtypes"] = bad
    return res


@op("native_cmp")
def _native_cmp(a, pre):
    x, y = pre
    tx, ty = _twin(x), _twin(y)
    if x.tzinfo is not None and a.get("share"):
        # same tzinfo object on both sides
        y = y.__class__(y.year, y.month, y.day, y.hour, y.minute, y.second, y.microsecond, tzinfo=x.tzinfo, fold=y.fold)
        ty = _dt.datetime(y.year, y.month, y.day, y.hour, y.minute, y.second, y.microsecond, tzinfo=tx.tzinfo, fold=y.fold)
    a["same_tzinfo"] = x.tzinfo is not None and x.tzinfo is y.tzinfo
    res = {"k": "cmp", "pp": _cmp6(x, y), "nn": _cmp6(tx, ty), "pn": _cmp6(x, ty)}
    try:
        res["sub"] = proj.td3(x - y)
    except Exception as e:  # noqa: BLE001
        res["sub"] = [0, 0, -1]
        res["suberr"] = type(e).__name__
    try:
        res["nsub"] = proj.td3(tx - ty)
    except Exception:  # noqa: BLE001
        res["nsub"] = [0, 0, -2]
    # mixed: pendulum - native and native - pendulum (the native operand goes through instance())
    for key, f in (("psubn", lambda: x - ty), ("nsubp", lambda: tx - y)):
        try:
            res[key] = proj.td3(f())
        except Exception:  # noqa: BLE001
            res[key] = [0, 0, -3]
    # which of the operations RAISE (naive against aware: TypeError for ordering and subtraction, == is False), pendulum
    # operands, native operands and the mixtures
    def errs(u, v):
        out = []
        for f in (lambda: u < v, lambda: u <= v, lambda: u > v, lambda: u >= v, lambda: u == v, lambda: u != v, lambda: u - v, lambda: v - u):
            try:
                f()
                out.append("-")
            except Exception as e:  # noqa: BLE001
                out.append(type(e).__name__)
        return out

    res["err_pp"], res["err_nn"], res["err_pn"], res["err_np"] = errs(x, y), errs(tx, ty), errs(x, ty), errs(tx, y)
    return res


# ---------------------------------------------------------------- execution
class HarnessTimeout(Exception):
    """the call did not return within OP_TIMEOUT seconds (observed as non-termination)"""


OP_TIMEOUT = 3.0          # seconds of CPU time of this process (robust against machine load), not wall clock


def _alarm(signum, frame):
    raise HarnessTimeout("call did not return within %g s of CPU time" % OP_TIMEOUT)


def execute(opname, a, pre_objs):
    """run one op on real objects; returns the real result or the exception raised"""
    import signal

    old = signal.signal(signal.SIGVTALRM, _alarm)
    signal.setitimer(signal.ITIMER_VIRTUAL, OP_TIMEOUT)
    try:
        return OPS[opname](a, pre_objs)
    except (KeyboardInterrupt, SystemExit, GeneratorExit):
        raise
    except Exception as e:  # noqa: BLE001 - the exception IS the observation
        return e
    except BaseException as e:  # noqa: BLE001 - a Rust panic arrives as a BaseException: observed like any other
        return proj.ObservedBaseException(e)
    finally:
        signal.setitimer(signal.ITIMER_VIRTUAL, 0)
        signal.signal(signal.SIGVTALRM, old)


def event(opname, a, pre_vals, backend, pre_objs=None):
    """execute and log.  pre_vals: projections from which the arguments are built with the raw
    constructors (unless pre_objs, the threaded real objects of a history, are given)."""
    objs = pre_objs if pre_objs is not None else [dec(v) for v in pre_vals]
    res = execute(opname, a, objs)
    post = res if isinstance(res, dict) and "k" in res else enc(res)
    pre = [enc(o) for o in objs]
    if pre_objs is None:
        for pv, lv in zip(pre_vals, pre):
            if isinstance(pv, dict) and "args" in pv:
                lv["args"] = pv["args"]       # keeps the event re-executable
    ev = {"op": opname, "bk": backend, "a": a, "pre": pre, "post": post}
    proj.chk(ev)
    return ev, res


# ---------------------------------------------------------------- C15
def _helpers():
    import pendulum.helpers as H

    return H


@op("year_prims")
def _year_prims(a, pre):
    H = _helpers()
    y = a["y"]
    return {"k": "arr", "v": [int(bool(H.is_leap(y))), int(bool(H.is_long_year(y))), int(H.days_in_year(y))]}


@op("year_weekdays")
def _year_weekdays(a, pre):
    H = _helpers()
    y = a["y"]
    d = _dt.date(y, 1, 1)
    out = []
    one = _dt.timedelta(days=1)
    while d.year == y:
        out.append(int(H.week_day(d.year, d.month, d.day)))
        if d == _dt.date.max:
            break
        d += one
    return {"k": "arr", "v": out}


@op("year_getters")
def _year_getters(a, pre):
    p = P()
    y = a["y"]
    cls = a["cls"]
    nd = 366 if (y % 4 == 0 and (y % 100 != 0 or y % 400 == 0)) else 365
    first = _dt.date(y, 1, 1).toordinal()
    res = {"k": "getters", "dow": [], "doy": [], "woy": [], "wom": [], "dim": [], "q": [], "leap": [], "long": []}
    tz = None
    if cls == "DateTimeTz":
        tz = tzobj(a["tz"])
    for k in range(nd):
        n = _dt.date.fromordinal(first + k)
        if cls == "Date":
            x = p.Date(n.year, n.month, n.day)
        elif cls == "DateTime":
            x = p.DateTime(n.year, n.month, n.day, 13, 14, 15, tzinfo=p.UTC)
        else:
            x = p.DateTime(n.year, n.month, n.day, 12, 0, 0, tzinfo=tz, fold=a.get('f', 0))
        res["dow"].append(int(x.day_of_week))
        res["doy"].append(int(x.day_of_year))
        res["woy"].append(int(x.week_of_year))
        res["wom"].append(int(x.week_of_month))
        res["dim"].append(int(x.days_in_month))
        res["q"].append(int(x.quarter))
        res["leap"].append(int(bool(x.is_leap_year())))
        res["long"].append(int(bool(x.is_long_year())))
    return res


@op("local_time_scan")
def _local_time_scan(a, pre):
    H = _helpers()
    out = []
    for k, (ds, off, us) in enumerate(zip(a["ds"], a["offs"], a["us"])):
        unix = (a["day0"] + k - E) * 86400 + ds
        out.append([int(v) for v in H.local_time(unix, off, us)])
    return {"k": "arr", "v": out}


# ---------------------------------------------------------------- C04
_CK = (("y", "years"), ("mo", "months"), ("w", "weeks"), ("d", "days"), ("h", "hours"), ("mi", "minutes"),
       ("s", "seconds"), ("us", "microseconds"))


def ckw(c, keys=_CK):
    return {name: c[k] for k, name in keys if c[k]}


@op("add_cal")
def _add_cal(a, pre):
    c, entry = a["c"], a["entry"]
    x = pre[0]
    if entry == "add":
        return x.add(**ckw(c))
    if entry == "subtract":
        return x.subtract(**ckw(c))
    d = P().Duration(**ckw(c))
    if entry == "plus_dur":
        return x + d
    if entry == "radd_dur":
        return d + x
    if entry == "minus_dur":
        return x - d
    if entry == "plus_neg_dur":
        return x + (-d)
    raise ValueError(entry)


@op("add_cal_date")
def _add_cal_date(a, pre):
    c, entry = a["c"], a["entry"]
    x = pre[0]
    kw = ckw(c, _CK[:4])
    if entry == "add":
        return x.add(**kw)
    if entry == "subtract":
        return x.subtract(**kw)
    if entry in ("plus_td", "minus_td"):
        td = _dt.timedelta(days=c["d"] + 7 * c["w"])
        return x + td if entry == "plus_td" else x - td
    d = P().Duration(**kw)
    if entry == "plus_dur":
        return x + d
    if entry == "minus_dur":
        return x - d
    if entry == "plus_neg_dur":
        return x + (-d)
    raise ValueError(entry)


# ---------------------------------------------------------------- C05 / C06
def _native(x):
    if isinstance(x, _dt.datetime):
        return _dt.datetime(x.year, x.month, x.day, x.hour, x.minute, x.second, x.microsecond, tzinfo=x.tzinfo,
                            fold=x.fold)
    return _dt.date(x.year, x.month, x.day)


def _native_k(x, kind):
    """native twin whose tzinfo is of another KIND but denotes the same offset for this value"""
    n = _native(x)
    if not isinstance(n, _dt.datetime) or n.tzinfo is None or kind == "same":
        return n
    if kind == "timezone":          # datetime.timezone carrying the value's current offset, seconds included
        return n.replace(tzinfo=_dt.timezone(x.utcoffset()))
    if kind == "zoneinfo":
        import zoneinfo

        zr, _k = proj.zref(x.tzinfo)
        return n.replace(tzinfo=zoneinfo.ZoneInfo(zr["n"])) if zr["n"] not in ("", "?") else n
    if kind == "dateutil":          # ONE dateutil tzinfo object per zone for the whole process (a DST-aware foreign tzinfo)
        zr, _k = proj.zref(x.tzinfo)
        if zr["n"] in ("", "?"):
            return n
        if zr["n"] not in _DATEUTIL:
            import dateutil.tz

            _DATEUTIL[zr["n"]] = dateutil.tz.gettz(zr["n"])
        tz = _DATEUTIL[zr["n"]]
        if tz is None or n.replace(tzinfo=tz).utcoffset() != x.utcoffset():
            return n                # dateutil reads its own copy of the tz data: only where it agrees on this value
        return n.replace(tzinfo=tz)
    raise ValueError(kind)


_DATEUTIL = {}


def _sm(n, base):
    n = int(n)
    sg = (n > 0) - (n < 0)
    n = abs(n)
    return [sg, [n // base, n % base]] if base else [sg, n]


def rel_of(a, b):
    if not isinstance(a, _dt.datetime):
        return "date"
    if a.tzinfo is None:
        return "naive"
    if a.tzinfo is b.tzinfo:
        return "same-object"
    za, _ = proj.zref(a.tzinfo)
    zb, _ = proj.zref(b.tzinfo)
    return "same-name" if za == zb else "different"


@op("iv_len")
def _iv_len(a, pre):
    p = P()
    x, y = pre
    a["rel"] = rel_of(x, y)
    en = a["entry"]
    if en == "interval":
        iv = p.interval(x, y)
    elif en == "interval_abs":
        iv = p.interval(x, y, absolute=True)
    elif en == "Interval":
        iv = p.Interval(x, y)
    elif en == "sub":
        iv = y - x
    elif en == "diff":
        iv = x.diff(y, False)
    elif en == "diff_default":
        iv = x.diff(y)
    elif en == "abs":
        iv = abs(y - x)
    elif en == "sub_native":
        iv = y - _native_k(x, a.get("nk", "same"))
    elif en == "rsub_native":
        iv = _native_k(y, a.get("nk", "same")) - x
    else:
        raise ValueError(en)
    r = enc(iv)
    if r["k"] == "iv":
        r["ins"] = _sm(iv.in_seconds(), 86400)
        r["inm"] = _sm(iv.in_minutes(), 1440)
        r["inh"] = _sm(iv.in_hours(), 0)
    return r


@op("rel")
def _rel(a, pre):
    """relations derived from elapsed time: closest / farthest / average / is_same_day / is_anniversary"""
    m = a["m"]
    x = pre[0]
    if m == "closest":
        return x.closest(pre[1], pre[2])
    if m == "farthest":
        return x.farthest(pre[1], pre[2])
    if m == "average":
        return x.average(pre[1])
    if m == "is_same_day":
        return {"k": "bool", "v": bool(x.is_same_day(pre[1]))}
    if m == "is_anniversary":
        return {"k": "bool", "v": bool(x.is_anniversary(pre[1])), "v2": bool(x.is_birthday(pre[1]))}
    raise ValueError(m)


@op("iv_arith")
def _iv_arith(a, pre):
    """an Interval used as a duration: arithmetic delegates to as_duration(), totals by truncation"""
    p = P()
    x, y = pre
    iv = p.Interval(x, y, absolute=a["abs"])
    o = a["o"]
    td = _dt.timedelta(days=a.get("d", 0), seconds=a.get("s", 0), microseconds=a.get("us", 0))
    if o == "as_duration":
        return iv.as_duration()
    if o == "neg":
        return -iv
    if o == "abs":
        return abs(iv)
    if o == "mul_int":
        return iv * a["n"]
    if o == "rmul_int":
        return a["n"] * iv
    if o == "floordiv_int":
        return iv // a["n"]
    if o == "truediv_int":
        return iv / a["n"]
    if o == "add_td":
        return iv + td
    if o == "radd_td":
        return td + iv
    if o == "sub_td":
        return iv - td
    if o == "rsub_td":
        return td - iv
    if o == "totals":
        return {"k": "totals", "ind": proj.sm(iv.in_days()), "inw": proj.sm(iv.in_weeks()), "iny": proj.sm(iv.in_years()),
                "years": int(iv.years), "eq_td": bool(iv == iv.as_timedelta()), "eq_dur": bool(iv == iv.as_duration()),
                "ts": proj.f2d3(iv.total_seconds())}
    raise ValueError(o)


@op("iv_comp")
def _iv_comp(a, pre):
    p = P()
    x, y = pre
    a["rel"] = rel_of(x, y)
    iv = p.Interval(x, y) if a.get("entry") == "Interval" else (y - x)
    c = [iv.years, iv.months, iv.weeks, iv.remaining_days, iv.hours, iv.minutes, iv.remaining_seconds,
         iv.microseconds]
    import pendulum._helpers as PH

    nx, ny = _native(x), _native(y)
    py = [int(v) for v in PH.precise_diff(nx, ny)]
    RS = rust_module()
    if RS:
        d = RS.precise_diff(nx, ny)
        rs = [d.years, d.months, d.days, d.hours, d.minutes, d.seconds, d.microseconds, d.total_days]
    else:
        rs = py
    res = {"k": "ivc", "c": [int(v) for v in c], "in_months": int(iv.in_months()), "py": py, "rs": rs,
           "total_days": int(iv.in_days())}
    if isinstance(x, _dt.datetime):
        try:
            res["sum"] = enc(x + iv)
        except Exception as e:  # noqa: BLE001
            res["sum"] = enc(e)
        try:
            res["addc"] = enc(x.add(years=c[0], months=c[1], weeks=c[2], days=c[3], hours=c[4], minutes=c[5],
                                    seconds=c[6], microseconds=c[7]))
        except Exception as e:  # noqa: BLE001
            res["addc"] = enc(e)
    else:
        res["sum"] = {"k": "none"}
        res["addc"] = {"k": "none"}
    return res


# ---------------------------------------------------------------- C12 / C16

@contextlib.contextmanager
def week_config(p, cfg, order="se"):
    """the process-wide week configuration, set through the public setters in the given order ('se': start then
    end, 'es': end then start, 's' / 'e': only that setter, the other bound keeps the default) and restored after"""
    if cfg is not None:
        for c in order:                      # upper case: the setter is given a plain int (WeekDay is an IntEnum)
            if c == "s":
                p.week_starts_at(p.WeekDay(cfg["ws"]))
            elif c == "e":
                p.week_ends_at(p.WeekDay(cfg["we"]))
            elif c == "S":
                p.week_starts_at(int(cfg["ws"]))
            else:
                p.week_ends_at(int(cfg["we"]))
    try:
        yield
    finally:
        p.week_ends_at(p.WeekDay.SUNDAY)
        p.week_starts_at(p.WeekDay.MONDAY)
        p.week_ends_at(p.WeekDay.SUNDAY)


def _wdarg(wd):
    return None if wd == -1 else P().WeekDay(wd)


@op("start_of")
def _start_of(a, pre):
    return _modifier("start_of", a, pre)


@op("end_of")
def _end_of(a, pre):
    return _modifier("end_of", a, pre)


def _modifier(name, a, pre):
    p = P()
    with week_config(p, a["cfg"], a.get("order", "se")):
        return getattr(pre[0], name)(a["unit"])


# weekday navigation does not depend on the week configuration: a["wcfg"], when given, is in force during the call
@op("next")
def _next(a, pre):
    x = pre[0]
    with week_config(P(), a.get("wcfg")):
        if isinstance(x, _dt.datetime):
            return x.next(_wdarg(a["wd"]), keep_time=a["keep"]) if a["keep"] or a["wd"] != -1 else x.next()
        return x.next(_wdarg(a["wd"]))


@op("previous")
def _previous(a, pre):
    x = pre[0]
    with week_config(P(), a.get("wcfg")):
        if isinstance(x, _dt.datetime):
            return x.previous(_wdarg(a["wd"]), keep_time=a["keep"]) if a["keep"] or a["wd"] != -1 else x.previous()
        return x.previous(_wdarg(a["wd"]))


@op("first_of")
def _first_of(a, pre):
    with week_config(P(), a.get("wcfg")):
        return pre[0].first_of(a["unit"], _wdarg(a["wd"])) if a["wd"] != -1 else pre[0].first_of(a["unit"])


@op("last_of")
def _last_of(a, pre):
    with week_config(P(), a.get("wcfg")):
        return pre[0].last_of(a["unit"], _wdarg(a["wd"])) if a["wd"] != -1 else pre[0].last_of(a["unit"])


@op("nth_of")
def _nth_of(a, pre):
    with week_config(P(), a.get("wcfg")):
        return pre[0].nth_of(a["unit"], a["n"], _wdarg(a["wd"]))
