"""Projection of real objects onto the abstract values of spec/Values.tla, and the inverse
(raw constructors).  The projection reads raw attributes only and computes no expected value.

TLC's JsonDeserialize forces: no null, no floats, every integer < 2^31, ASCII identifiers;
text travels as arrays of code points.
"""
from __future__ import annotations

import datetime as _dt
import zoneinfo

E = 719163  # ordinal of 1970-01-01
_TD_DAYS = _dt.timedelta.days
_TD_SECONDS = _dt.timedelta.seconds
_TD_US = _dt.timedelta.microseconds


def td3(td):
    """native timedelta slots, read through the BASE-CLASS descriptors (Duration.seconds /
    Interval.days are overridden by pendulum with another meaning)."""
    return [_TD_DAYS.__get__(td), _TD_SECONDS.__get__(td), _TD_US.__get__(td)]


def cps(s):
    return [ord(c) for c in s]


def uncps(a):
    return "".join(chr(c) for c in a)


def chk(x):
    if isinstance(x, bool):
        return
    if isinstance(x, int):
        if not -2 ** 31 < x < 2 ** 31:
            raise OverflowError("integer %r does not fit a TLC int" % x)
    elif isinstance(x, (list, tuple)):
        for y in x:
            chk(y)
    elif isinstance(x, dict):
        for y in x.values():
            chk(y)
    elif x is None or isinstance(x, float):
        raise TypeError("unencodable %r" % (x,))


def zref(tz):
    """-> (ZoneRef, kind)"""
    import pendulum

    if tz is None:
        return {"n": "naive", "fo": 0}, "none"
    if isinstance(tz, pendulum.FixedTimezone):
        return {"n": "", "fo": tz.offset}, "fixed"
    if isinstance(tz, pendulum.Timezone):
        return {"n": tz.name, "fo": 0}, "pendulum"
    if isinstance(tz, zoneinfo.ZoneInfo):
        return {"n": tz.key, "fo": 0}, "zoneinfo"
    if isinstance(tz, _dt.timezone):
        return {"n": "", "fo": int(tz.utcoffset(None).total_seconds())}, "native-fixed"
    return {"n": "?", "fo": 0}, type(tz).__module__.split(".")[0]


class ObservedBaseException(Exception):
    """wrapper the harness puts around a BaseException that is not an Exception (a Rust panic surfaces as
    pyo3_runtime.PanicException), so that drivers can treat it like every other observed exception; it projects as
    the ORIGINAL exception"""

    def __init__(self, orig):
        super().__init__(str(orig))
        self.orig = orig


def exc(e):
    if isinstance(e, ObservedBaseException):
        e = e.orig
    return {"k": "exc", "names": [c.__name__ for c in type(e).__mro__ if c is not object],
            "msg": cps(str(e)[:80].encode("ascii", "replace").decode())}


def enc(o):
    """project any supported object"""
    import pendulum

    if isinstance(o, BaseException):
        return exc(o)
    if isinstance(o, _dt.datetime):
        z, zk = zref(o.tzinfo)
        off = o.utcoffset()
        r = {"k": "dt", "z": z, "zk": zk, "w": [o.year, o.month, o.day, o.hour, o.minute, o.second, o.microsecond],
             "f": o.fold, "off": 0 if off is None else off.days * 86400 + off.seconds,
             "offus": 0 if off is None else off.microseconds, "cls": type(o).__name__}
        return r
    if isinstance(o, _dt.date):
        return {"k": "date", "w": [o.year, o.month, o.day], "cls": type(o).__name__}
    if isinstance(o, _dt.time):
        z, zk = zref(o.tzinfo)
        return {"k": "time", "w": [o.hour, o.minute, o.second, o.microsecond], "f": o.fold, "z": z,
                "cls": type(o).__name__}
    if isinstance(o, pendulum.Interval):
        return enc_interval(o)
    if isinstance(o, pendulum.Duration):
        return enc_duration(o)
    if isinstance(o, _dt.timedelta):
        return {"k": "td", "r3": td3(o), "cls": type(o).__name__, "years": 0, "months": 0}
    if isinstance(o, bool):
        return {"k": "bool", "v": o}
    if isinstance(o, int):
        if abs(o) < 2 ** 31:
            return {"k": "int", "n": o, "cls": "int"}
        return {"k": "int", "v": biglimbs(o), "cls": "int", "n": -2 ** 31 + 1}
    if isinstance(o, float):
        if o != o or o in (float("inf"), float("-inf")):
            return {"k": "float", "num": 0, "den": 0}
        num, den = o.as_integer_ratio()
        if abs(num) < 2 ** 31 and den < 2 ** 31:
            return {"k": "float", "num": num, "den": den}
        return {"k": "float", "num": 2 ** 31 - 1, "den": 2 ** 31 - 1}
    if isinstance(o, tuple) and len(o) == 2:
        return {"k": "pair", "q": enc(o[0]), "r": enc(o[1])}
    if isinstance(o, str):
        return {"k": "str", "v": cps(o)}
    if o is None:
        return {"k": "none"}
    if isinstance(o, pendulum.tz.timezone.PendulumTimezone) or isinstance(o, _dt.tzinfo):
        z, zk = zref(o)
        nm = getattr(o, "name", None)
        return {"k": "tz", "z": z, "zk": zk, "cls": type(o).__name__, "name": cps(nm if isinstance(nm, str) else "?")}
    return {"k": "other", "cls": type(o).__name__}


def biglimbs(n):
    """signed integer as [sign, limbs base 10^4 little endian]"""
    s = -1 if n < 0 else (1 if n > 0 else 0)
    n = abs(n)
    out = []
    while n:
        out.append(n % 10000)
        n //= 10000
    return [s, out]


def enc_duration(d):
    r = {"k": "dur", "cls": type(d).__name__, "r3": td3(d)}
    for name in ("years", "months", "weeks", "remaining_days", "hours", "minutes", "remaining_seconds",
                 "microseconds", "invert"):
        try:
            v = getattr(d, name)
            r[name] = int(v) if not isinstance(v, bool) else int(v)
        except Exception as e:  # noqa: BLE001
            r[name] = -777777
            r["err_" + name] = type(e).__name__
    try:
        dd = d.days
        r["days"] = dd if abs(dd) < 2 ** 31 else -777777
    except Exception:  # noqa: BLE001
        r["days"] = -777777
    return r


def f2d3(f, unit_us=1000000):
    """float quantity (in units of unit_us microseconds) -> Dur3 of the nearest microsecond"""
    from fractions import Fraction

    us = round(Fraction(f) * unit_us)
    sec, us = divmod(us, 1000000)
    d, sec = divmod(sec, 86400)
    return [d, sec, us]


def sm(n, base=0):
    n = int(n)
    sg = (n > 0) - (n < 0)
    n = abs(n)
    return [sg, [n // base, n % base]] if base else [sg, n]


def enc_duration_full(d):
    r = enc_duration(d)
    r["ts"] = f2d3(d.total_seconds())
    r["tmi"] = f2d3(d.total_minutes(), 60 * 10 ** 6)
    r["th"] = f2d3(d.total_hours(), 3600 * 10 ** 6)
    r["td"] = f2d3(d.total_days(), 86400 * 10 ** 6)
    r["tw"] = f2d3(d.total_weeks(), 7 * 86400 * 10 ** 6)
    r["ins"] = sm(d.in_seconds(), 86400)
    r["inm"] = sm(d.in_minutes(), 1440)
    r["inh"] = sm(d.in_hours(), 24)
    r["ind"] = sm(d.in_days())
    r["inw"] = sm(d.in_weeks())
    r["atd"] = td3(d.as_timedelta())
    return r


def enc_interval(iv):
    r = enc_duration(iv)
    r["k"] = "iv"
    r["a"] = enc(iv.start)
    r["b"] = enc(iv.end)
    r["abs"] = bool(getattr(iv, "_absolute", False))
    return r


_tzcache = {}


def tzobj(zr, kind="pendulum"):
    import pendulum

    key = (zr["n"], zr["fo"], kind)
    if key in _tzcache:
        return _tzcache[key]
    if zr["n"] == "naive":
        r = None
    elif kind == "zoneinfo":
        r = zoneinfo.ZoneInfo(zr["n"])
    elif kind == "pendulum-nocache":
        r = pendulum.Timezone.no_cache(zr["n"])   # same name, a different tzinfo object
    elif kind == "native-fixed":
        r = _dt.timezone(_dt.timedelta(seconds=zr["fo"]))
    elif zr["n"] == "":
        r = pendulum.FixedTimezone(zr["fo"])
    else:
        r = pendulum.timezone(zr["n"])
    _tzcache[key] = r
    return r


def dec(v):
    """raw construction of a real object from its projection (no normalisation involved)"""
    import pendulum

    k = v["k"]

    def _tz(v):
        if v.get("nm") is not None:        # a FixedTimezone given an explicit name (an abbreviation such as "-03" or "CET")
            return pendulum.FixedTimezone(v["z"]["fo"], name=uncps(v["nm"]))
        return tzobj(v["z"], v.get("zk", "pendulum"))

    if k == "dt":
        cls = {"DateTime": pendulum.DateTime, "datetime": _dt.datetime}[v.get("cls", "DateTime")]
        return cls(*v["w"], tzinfo=_tz(v), fold=v["f"])
    if k == "date":
        cls = {"Date": pendulum.Date, "date": _dt.date}[v.get("cls", "Date")]
        return cls(*v["w"])
    if k == "time":
        cls = {"Time": pendulum.Time, "time": _dt.time}[v.get("cls", "Time")]
        if v.get("z") and v["z"]["n"] != "naive":
            return cls(*v["w"], tzinfo=_tz(dict(v, zk=v.get("zk", "fixed" if v["z"]["n"] == "" else "pendulum"))))
        return cls(*v["w"])
    if k == "td":
        return _dt.timedelta(*(v.get("r") or v["r3"]))
    if k == "dur":
        a = v["args"]
        names = {"y": "years", "mo": "months", "w": "weeks", "d": "days", "h": "hours", "mi": "minutes", "s": "seconds",
                 "ms": "milliseconds", "us": "microseconds"}
        return pendulum.Duration(**{names[k2]: val for k2, val in a.items() if val})
    if k == "iv":
        return pendulum.Interval(dec(v["a"]), dec(v["b"]), absolute=bool(v.get("abs")))
    if k == "tz":
        return _tz(v)
    raise ValueError("cannot decode %r" % (v,))


def mk_dt(zr, w, f=0, zk=None, cls="DateTime"):
    if zk is None:
        zk = "none" if zr["n"] == "naive" else ("fixed" if zr["n"] == "" else "pendulum")
    return {"k": "dt", "z": dict(zr), "zk": zk, "w": list(w), "f": f, "cls": cls}


def i3_to_wall(i):
    d = _dt.date.fromordinal(i[0])
    return [d.year, d.month, d.day, i[1] // 3600, i[1] % 3600 // 60, i[1] % 60, i[2]]


def sec_to_i3(sec, us=0):
    return [sec // 86400 + E, sec % 86400, us]
