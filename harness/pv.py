"""pv - command line of the verification machinery.

  pv setup                          build caches (zone tables + cross-check, synthetic TZif, Rust helpers, SANY)
  pv check <ID> [--tier quick|thorough]
  pv replay <ID> <path>
  pv selftest ...

exit 0: property held on everything explored (KNOWN-FINDING lines may have been printed)
exit 1: VIOLATION property=<id> replay=<path>
exit 2: the machinery itself failed (never a VIOLATION)
"""
from __future__ import annotations

import argparse
import collections
import concurrent.futures as cf
import hashlib
import importlib
import json
import os
import shutil
import subprocess
import sys
import time

from . import env, findings, tlcrun
from .env import BUILD, EVID, PY, VERIF, Machinery

NCPU = int(os.environ.get("PV_JOBS", "16"))


def props():
    out = {}
    for line in open(os.path.join(VERIF, "properties.jsonl")):
        p = json.loads(line)
        out[p["id"]] = p
    return out


# ------------------------------------------------------------------------------ setup
def setup(args=None):
    t0 = time.time()
    os.makedirs(BUILD, exist_ok=True)
    from . import synth, zones

    zs = zones.load_all(BUILD, rebuild=bool(args and args.rebuild))
    print("zone tables: %d zones, %d transitions (cross-checked against zoneinfo)" % (
        len(zs), sum(len(z["trs"]) for z in zs.values())))
    synth.build()
    print("synthetic zones compiled to", env.TZDIR)
    so = env.build_rust()
    print("compiled helpers:", so)
    sany()
    print("setup ok in %.1fs" % (time.time() - t0))
    return 0


def sany():
    mods = sorted(f for f in os.listdir(env.SPEC) if f.endswith(".tla"))
    bad = []

    def one(m):
        p = subprocess.run(["java", "-cp", env.TLA_CP, "tla2sany.SANY", m], cwd=env.SPEC, stdout=subprocess.PIPE,
                           stderr=subprocess.STDOUT, text=True)
        return m, p.returncode, p.stdout

    with cf.ThreadPoolExecutor(8) as ex:
        for m, rc, out in ex.map(one, mods):
            if rc != 0 or "*** Errors" in out or "Fatal error" in out or "Could not find module" in out:
                bad.append((m, out[-1500:]))
    if bad:
        raise Machinery("SANY rejects: " + "; ".join("%s: %s" % b for b in bad))
    print("SANY: %d modules parse" % len(mods))


def ensure_built():
    from . import synth, zones

    zones.load_all(BUILD)
    synth.build()
    env.build_rust()


# ------------------------------------------------------------------------------ check
def run_shards(prop, tier, seed, plan, workdir):
    """plan: list of (backend, nslices).  Returns list of shard summaries."""
    jobs = []
    for backend, n in plan:
        for i in range(n):
            out = os.path.join(workdir, "shard-%s-%d.json" % (backend, i))
            jobs.append((backend, i, n, out))
    rust_so = env.build_rust()

    def run(job):
        backend, i, n, out = job
        e = dict(os.environ, PV_RUST_SO=rust_so, PYTHONHASHSEED="0", PYTHONPATH=VERIF)
        e.pop(env.GUARD, None)
        p = subprocess.run([PY, "-m", "harness.shard", prop, tier, str(seed), backend, str(i), str(n), out],
                           cwd=VERIF, env=e, stdout=subprocess.PIPE, stderr=subprocess.STDOUT, text=True)
        if not os.path.exists(out):
            return {"machinery": "shard %s/%d died: %s" % (backend, i, p.stdout[-3000:])}
        return json.load(open(out))

    with cf.ThreadPoolExecutor(NCPU) as ex:
        res = list(ex.map(run, jobs))
    for r in res:
        if "machinery" in r:
            raise Machinery(r["machinery"])
    return res


def check(args):
    prop = args.id
    tier = args.tier or os.environ.get("VERIF_TIER") or "quick"
    seed = int(os.environ.get("VERIF_SEED", "0") or 0)
    t0 = time.time()
    workdir = os.path.join(BUILD, "run-%s-%d" % (prop, os.getpid()))
    shutil.rmtree(workdir, ignore_errors=True)
    os.makedirs(workdir)
    try:
        ensure_built()
        mod = importlib.import_module("harness.checks." + prop.lower())
        rep = mod.run(Run(prop, tier, seed, workdir))
        code = conclude(prop, tier, seed, rep, time.time() - t0)
    except Machinery as e:
        print("MACHINERY-FAILURE property=%s: %s" % (prop, e))
        code = 2
    finally:
        if not os.environ.get("PV_KEEP"):
            shutil.rmtree(workdir, ignore_errors=True)
    return code


class Run:
    """what a check module gets: helpers to model-check, drive and collect"""

    def __init__(self, prop, tier, seed, workdir):
        self.prop, self.tier, self.seed, self.workdir = prop, tier, seed, workdir
        self.quick = tier == "quick"
        self.mc = []  # model checking runs: dicts
        self.shards = []
        self.gr = []  # graph replay results
        self.notes = []

    def model_check(self, module, cfg=None, env_=None, required_actions=(), **kw):
        cfg = cfg or module + ".cfg"
        e = {"PV_ZONES": os.path.join(BUILD, "synth-zones.json")}
        e.update(env_ or {})
        ok, st, out = tlcrun.model_check(module, cfg, e, workdir=self.workdir, coverage=bool(required_actions),
                                         workers=kw.pop("workers", NCPU), **kw)
        if not ok:
            log = os.path.join(BUILD, "mc-fail-%s-%s.log" % (self.prop, module))
            open(log, "w").write(out)
            raise Machinery("model checking of %s (%s) failed, log %s: %s" % (module, cfg, log, tail(out)))
        if required_actions:
            cov = tlcrun.coverage_counts(out)
            for a in required_actions:
                if cov.get(a, (0, 0))[1] == 0:
                    raise Machinery("vacuous model: action %s of %s never taken" % (a, module))
            st["actions"] = {a: cov[a][1] for a in required_actions}
        st["module"], st["cfg"] = module, cfg
        self.mc.append(st)
        return st, out

    def drive(self, plan=None):
        plan = plan or [("rs", NCPU), ("py", NCPU)]
        self.shards += run_shards(self.prop, self.tier, self.seed, plan, self.workdir)


def tail(s, n=1200):
    return s[-n:]


def conclude(prop, tier, seed, run, wall):
    """aggregate, classify against known findings, write evidence, print verdict lines"""
    kf = findings.load()
    labels = collections.Counter()
    events = 0
    states = sum(m["states"] for m in run.mc)
    transitions = sum(m["transitions"] for m in run.mc)
    bad = []
    samples = []
    per_backend = collections.Counter()
    extra = {}
    distinct_nt = 0
    for s in run.shards:
        events += s["events"]
        per_backend[s["backend"]] += s["events"]
        distinct_nt += s.get("distinct_nontrivial", 0)
        labels.update(s["labels"])
        bad += s["bad"]
        if len(samples) < 4:
            samples += s["samples"][:1]
        states += s["stats"]["states"]
        transitions += s["stats"]["transitions"]
        for k, v in s.get("extra", {}).items():
            extra[k] = extra.get(k, 0) + v
    for g in run.gr:
        events += g.get("edges", 0)
        bad += g.get("bad", [])
        samples += g.get("samples", [])[:2]
    # clauses named x-... belong to the SPECIFICATION'S EXTENSION beyond the listed property (behaviour the spec also
    # describes: closest(), average(), Interval.in_days() ...).  They are judged and reported, but only the clauses
    # of the property itself decide the verdict of the check.
    ext = collections.OrderedDict()
    prop_bad = []
    for ev in bad:
        xs = [c for c in ev["verdict"]["v"] if str(c[0]).startswith("x-")]
        rest = [c for c in ev["verdict"]["v"] if not str(c[0]).startswith("x-")]
        if xs:
            ext.setdefault((ev["op"], tuple(c[0] for c in xs)), []).append(ev)
        if rest:
            ev = dict(ev, verdict=dict(ev["verdict"], v=rest))
            prop_bad.append(ev)
    known, fresh = findings.classify(prop, prop_bad, kf)
    rdir = os.path.join(BUILD, "replay")
    os.makedirs(rdir, exist_ok=True)
    import glob

    for old in glob.glob(os.path.join(rdir, "%s-%s-*.json" % (prop, tier))):
        os.remove(old)
    for fid, evs in sorted(known.items()):
        print("KNOWN-FINDING: property=%s %s [%s; %d event(s) this run]" % (prop, kf[fid]["what"], fid, len(evs)))
    for (op_, cls), evs in ext.items():
        e0 = evs[0]
        print("SPEC-EXTENSION-DIVERGENCE: property=%s op=%s clauses=%s count=%d (not part of the property; no verdict) first: a=%s pre=%s expected=%s" % (
            prop, op_, list(cls), len(evs), brief(e0.get("a"), 200), brief(e0.get("pre"), 300), brief(e0["verdict"]["v"], 200)))
    vio_paths = []
    groups = collections.OrderedDict()
    for ev in fresh:
        key = (ev["op"], tuple(c[0] for c in ev["verdict"]["v"]), tuple(ev["verdict"]["c"]), ev.get("bk"))
        groups.setdefault(key, []).append(ev)
    for n, (key, evs) in enumerate(groups.items()):
        path = os.path.join(rdir, "%s-%s-%d.json" % (prop, tier, n))
        with open(path, "w") as f:
            json.dump({"property": prop, "class": [key[0], list(key[1]), list(key[2]), key[3]],
                       "count": len(evs), "events": evs[:20]}, f, indent=1)
        vio_paths.append(path)
        if n < 40:
            e0 = evs[0]
            print("VIOLATION property=%s replay=%s" % (prop, path))
            print("  op=%s backend=%s clauses=%s labels=%s count=%d" % (key[0], key[3], list(key[1]), list(key[2]), len(evs)))
            print("  first: a=%s pre=%s post=%s expected=%s" % (
                brief(e0.get("a")), brief(e0.get("pre")), brief(e0.get("post")), brief(e0["verdict"]["v"])))
    nontriv_labels = {k: v for k, v in labels.items() if nontrivial_label(k)}
    cov = {
        "states": states, "transitions": transitions,
        "traces_validated_against_impl": events,
        "evaluations": events,
        "distinct_nontrivial": distinct_nt,
        "nontrivial_events": sum(nontriv_labels.values()),
        "rule": "every event is one executed public call judged by TLC against the TLA+ reference operators; events "
                "are enumerated by the driver (harness/drivers/%s.py); slices partition the stimuli; distinct_nontrivial "
                "counts, per (back-end, slice), the DISTINCT (operation, arguments, pre-values) triples (by hash) of the "
                "non-trivial events and sums over the slices (the same stimulus executed in both back-ends counts "
                "twice: it is a different execution); an event counts as non-trivial when the SPEC classified it into a class "
                "other than the plain one (ambiguous/skipped wall time, offset change between source and result, "
                "non-default entry point or fold, exception outcome, ...: label contains a marker listed in "
                "harness/pv.py:NONTRIVIAL)" % prop.lower(),
        "samples": [strip(s) for s in samples[:4]] or [{"note": "no event sampled"}],
        "classes": dict(sorted(labels.items(), key=lambda kv: -kv[1])[:60]),
        "class_count": len(labels),
        "per_backend_events": dict(per_backend),
        "model_checking_runs": run.mc,
        "known_findings_matched": {k: len(v) for k, v in known.items()},
        "spec_extension_divergences": {"%s %s" % (k[0], "+".join(k[1])): len(v) for k, v in ext.items()},
        "exhaustive": False,
        "notes": run.notes,
    }
    cov.update(extra)
    ev = {"property_id": prop, "tier": tier, "seed": seed, "level": "model_checking", "coverage": cov,
          "assumptions": ["TLC 1.8.0 and the CommunityModules Json/IOUtils overrides",
                          "CPython datetime/zoneinfo and the TZif files are the tz database",
                          "harness/proj.py projects real objects faithfully (raw attribute reads only)",
                          "harness/zones.py decodes TZif files (cross-checked against plain zoneinfo at setup)"],
          "wall_s": round(wall, 2), "violations": len(fresh)}
    evid = EVID if not os.environ.get("PV_NO_EVIDENCE") else os.path.join(BUILD, "scratch-evidence")
    os.makedirs(evid, exist_ok=True)
    tmp = os.path.join(evid, prop + ".json.tmp%d" % os.getpid())
    with open(tmp, "w") as f:
        json.dump(ev, f, indent=1)
    os.replace(tmp, os.path.join(evid, prop + ".json"))
    print("%s %s: %d events validated (%s), %d TLC states, %d known-finding events, %d violations, %.1fs" % (
        prop, tier, events, dict(per_backend), states, sum(len(v) for v in known.values()), len(fresh), wall))
    return 1 if fresh else 0


NONTRIVIAL = ("repeated", "skipped", "|1", "Exc", "exc", "nontrivial")


def nontrivial_label(lab):
    return any(m in lab for m in NONTRIVIAL)


def brief(x, n=400):
    s = json.dumps(x, separators=(",", ":"))
    return s if len(s) <= n else s[:n] + "..."


def strip(ev):
    ev = dict(ev)
    return ev


# ------------------------------------------------------------------------------ replay
def replay(args):
    """re-execute the events of a replay file against the real code and re-judge them"""
    data = json.load(open(args.path))
    prop = data["property"]
    ensure_built()
    workdir = os.path.join(BUILD, "replay-%d" % os.getpid())
    os.makedirs(workdir, exist_ok=True)
    try:
        out = os.path.join(workdir, "replay.json")
        e = dict(os.environ, PYTHONPATH=VERIF, PV_RUST_SO=env.build_rust())
        p = subprocess.run([PY, "-m", "harness.replayer", args.path, out], cwd=VERIF, env=e)
        if p.returncode != 0 or not os.path.exists(out):
            raise Machinery("replayer failed")
        res = json.load(open(out))
        kf = findings.load()
        known, fresh = findings.classify(prop, res["bad"], kf)
        for ev in res["all"]:
            print("event %s op=%s backend=%s -> %s" % (ev["id"], ev["op"], ev["bk"],
                                                       "CONFORMS" if not ev["verdict"]["v"] else "DIVERGES " + brief(ev["verdict"]["v"])))
        for fid in known:
            print("KNOWN-FINDING: property=%s %s [%s]" % (prop, kf[fid]["what"], fid))
        if fresh:
            print("VIOLATION property=%s replay=%s" % (prop, args.path))
            return 1
        return 0
    except Machinery as ex:
        print("MACHINERY-FAILURE:", ex)
        return 2
    finally:
        shutil.rmtree(workdir, ignore_errors=True)


def main(argv=None):
    ap = argparse.ArgumentParser(prog="pv")
    sub = ap.add_subparsers(dest="cmd", required=True)
    s = sub.add_parser("setup")
    s.add_argument("--rebuild", action="store_true")
    c = sub.add_parser("check")
    c.add_argument("id")
    c.add_argument("--tier", choices=["quick", "thorough"])
    r = sub.add_parser("replay")
    r.add_argument("id")
    r.add_argument("path")
    st = sub.add_parser("selftest")
    st.add_argument("rest", nargs="*")
    args = ap.parse_args(argv)
    try:
        if args.cmd == "setup":
            return setup(args)
        if args.cmd == "check":
            return check(args)
        if args.cmd == "replay":
            return replay(args)
        if args.cmd == "selftest":
            from . import selftest

            return selftest.main(args.rest)
    except Machinery as e:
        print("MACHINERY-FAILURE:", e)
        return 2


if __name__ == "__main__":
    sys.exit(main())
