"""Re-execute the events of a replay file against the real code (in the recorded backend) and
have TLC judge them again.  usage: python -m harness.replayer <replay.json> <out.json>"""
from __future__ import annotations

import json
import os
import subprocess
import sys

from . import env


def child(path, backend, out):
    env.bootstrap(backend)
    from . import ops, shard

    data = json.load(open(path))
    ctx = shard.Ctx(data["property"], "quick", 0, backend, 0, 1, os.path.dirname(out))
    evs = [e for e in data["events"] if e.get("bk", "rs") == backend]
    allv = []
    for e in evs:
        if "chain" in e:
            objs = None
            for st in e["chain"]:
                ev, res = ops.event(st["op"], st["a"], st["pre"] if objs is None else [], backend,
                                    None if objs is None else objs)
                objs = [res]
            ev["id"] = e["id"]
        else:
            ev, _ = ops.event(e["op"], dict(e["a"]), e["pre"], backend)
            ev["id"] = e["id"]
        if "tag" in e:
            ev["tag"] = e["tag"]
        ctx.events.append(ev)
        allv.append(ev)
    ids = [e["id"] for e in allv]
    ctx.flush()
    bad = list(ctx.kept.values())
    for ev in allv:
        ev.setdefault("verdict", {"c": [], "v": []})
    json.dump({"all": allv, "bad": bad}, open(out, "w"))


def main(argv):
    path, out = argv[:2]
    if len(argv) == 3:
        return child(path, argv[2], out)
    data = json.load(open(path))
    res = {"all": [], "bad": []}
    for bk in sorted({e.get("bk", "rs") for e in data["events"]}):
        o = out + "." + bk
        p = subprocess.run([sys.executable, "-m", "harness.replayer", path, o, bk])
        if p.returncode != 0:
            sys.exit(2)
        r = json.load(open(o))
        res["all"] += r["all"]
        res["bad"] += r["bad"]
    json.dump(res, open(out, "w"))


if __name__ == "__main__":
    main(sys.argv[1:])
