"""Worker process: one (property, backend, slice).  Runs the driver against the REAL library,
has TLC judge the recorded events, writes a result summary for the parent.

usage: python -m harness.shard <prop> <tier> <seed> <backend> <i> <n> <outfile>
"""
from __future__ import annotations

import collections
import importlib
import json
import os
import random
import sys
import time
import traceback

from . import env, zones as zonesmod

CHUNK = 12000            # events per TLC run, in units of a plain event
BIG = {"iso_year_scan", "year_weekdays", "year_getters", "local_time_scan", "year_prims", "range"}   # events carrying arrays


class Ctx:
    def __init__(self, prop, tier, seed, backend, i, n, workdir):
        self.prop, self.tier, self.seed, self.backend, self.i, self.n = prop, tier, seed, backend, i, n
        self.workdir = workdir
        self.rnd = random.Random("%s/%s/%d/%d" % (prop, backend, seed, i))
        self.shared_rnd = random.Random("%s/%d" % (prop, seed))  # same stream in every slice and backend
        self.events = []
        self.weight = 0
        self.nid = 0
        self.ztab = None
        self.results = {}
        self.stats = {"states": 0, "transitions": 0, "tlc_runs": 0, "tlc_wall_s": 0.0}
        self.exec_s = 0.0
        self.extra = {}  # driver-specific measured facts for the evidence file
        self.kept = {}  # id -> event, only for violating or sampled events
        self.samples = []
        self.labels = collections.Counter()
        self.nontrivial = set()
        self.nevents = 0
        self.t_start = time.time()

    # ------------------------------------------------------------ data
    @property
    def zones(self):
        if self.ztab is None:
            self.ztab = zonesmod.load_all(env.BUILD)
            sp = os.path.join(env.BUILD, "synth-zones.json")
            if os.path.exists(sp):
                self.ztab.update(json.load(open(sp)))
        return self.ztab

    def mine(self, seq):
        """this slice's share of a deterministic sequence"""
        return [x for k, x in enumerate(seq) if k % self.n == self.i]

    def quick(self):
        return self.tier == "quick"

    # ------------------------------------------------------------ recording
    def emit(self, opname, a, pre_vals=(), pre_objs=None, tag=None, log=True):
        from . import ops

        ev, res = ops.event(opname, a, list(pre_vals), self.backend, pre_objs)
        if not log:
            return res
        self.nid += 1
        ev["id"] = "%s.%d.%d" % (self.backend, self.i, self.nid)
        if tag is not None:
            ev["tag"] = tag
        self._push(ev)
        return res

    def _push(self, ev):
        # an event that carries a whole array weighs as many plain events as its text is long (TLC holds the
        # deserialised trace in memory: 12 000 year scans in one run exhausted a 1.5 GB heap)
        self.weight += 1 + (len(str(ev["post"])) // 1500 if ev["op"] in BIG else 0)
        self.events.append(ev)
        if self.weight >= CHUNK:
            self.flush()

    def add_event(self, ev):
        """log an event produced elsewhere (already executed)"""
        from . import proj

        proj.chk(ev)
        self.nid += 1
        ev["id"] = "%s.%d.%d" % (self.backend, self.i, self.nid)
        ev["bk"] = self.backend
        self._push(ev)

    def _zones_used(self, evs):
        used = set()

        def walk(x):
            if isinstance(x, dict):
                if "n" in x and "fo" in x and len(x) == 2:
                    if x["n"] not in ("", "naive", "?"):
                        used.add(x["n"])
                else:
                    for v in x.values():
                        walk(v)
            elif isinstance(x, list):
                for v in x:
                    walk(v)

        walk(evs)
        return used

    def flush(self):
        from . import tlcrun

        evs, self.events = self.events, []
        self.weight = 0
        if not evs:
            return
        used = self._zones_used(evs)
        zt = {"UTC": self.zones["UTC"]}
        for k in used:
            if k in self.zones:
                zt[k] = self.zones[k]
        self.stats["tlc_runs"] += 1
        tag = "%s-%s-%d-%d" % (self.prop, self.backend, self.i, self.stats["tlc_runs"])
        res, st = tlcrun.judge(evs, zt, self.workdir, tag, locales=self.locales_file())
        self.stats["states"] += st["states"]
        self.stats["transitions"] += st["transitions"]
        self.stats["tlc_wall_s"] += st["wall_s"]
        self.nevents += len(evs)
        import hashlib

        from .pv import nontrivial_label

        for ev in evs:
            r = res[ev["id"]]
            lab = "|".join(str(x) for x in ([ev["op"]] + list(r["c"])))
            self.labels[lab] += 1
            if nontrivial_label(lab):
                key = json.dumps([ev["op"], ev["a"], ev["pre"]], sort_keys=True, separators=(",", ":"))
                self.nontrivial.add(hashlib.blake2b(key.encode(), digest_size=8).digest())
            if r["v"]:
                ev["verdict"] = r
                self.kept[ev["id"]] = ev
            elif len(self.samples) < 3 and self.labels[lab] == 1:
                ev["verdict"] = r
                self.samples.append(ev)

    def locales_file(self):
        """locale tables exported from the working tree (specification data for C08 / C18)"""
        if self.prop not in ("C08", "C18"):
            return None
        path = os.path.join(self.workdir, "locales-%s-%d.json" % (self.backend, self.i))
        if not os.path.exists(path):
            from . import locales

            with open(path, "w") as f:
                json.dump(locales.export_all(), f, separators=(",", ":"))
        return path

    def summary(self):
        return {"prop": self.prop, "backend": self.backend, "slice": self.i, "events": self.nevents,
                "labels": dict(self.labels), "bad": list(self.kept.values()), "samples": self.samples,
                "distinct_nontrivial": len(self.nontrivial),
                "stats": self.stats, "extra": self.extra, "wall_s": time.time() - self.t_start}


def main(argv):
    prop, tier, seed, backend, i, n, out = argv
    seed, i, n = int(seed), int(i), int(n)
    workdir = os.path.dirname(out)
    try:
        env.bootstrap(backend)
        ctx = Ctx(prop, tier, seed, backend, i, n, workdir)
        mod = importlib.import_module("harness.drivers." + prop.lower())
        mod.drive(ctx)
        ctx.flush()
        res = ctx.summary()
    except env.Machinery as e:
        res = {"machinery": str(e)}
    except Exception:  # noqa: BLE001
        res = {"machinery": "driver crashed:\n" + traceback.format_exc()}
    tmp = out + ".tmp"
    with open(tmp, "w") as f:
        json.dump(res, f)
    os.replace(tmp, out)


if __name__ == "__main__":
    main(sys.argv[1:])
