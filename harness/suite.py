"""Trace validation of the repository's own test-suite: the tests are run under harness/tracer.py (an external
pytest plugin, guard PENDULUM_VERIF_TRACE) and the recorded public calls are judged like any other event."""
from __future__ import annotations

import json
import os
import subprocess

from . import env

OPS_OF = {"C01": {"in_tz"}, "C02": {"create", "naive_in_tz"}, "C03": {"add_fixed"}, "C04": {"add_cal", "add_cal_date"},
          "C12": {"start_of", "end_of"}, "C16": {"next", "previous", "first_of", "last_of", "nth_of"}, "C20": {"time_add"}}
PATHS = ["tests/datetime", "tests/date", "tests/time", "tests/interval", "tests/tz", "tests/duration"]


def trace_suite(ctx):
    """only one slice per back-end records the suite"""
    ops = OPS_OF.get(ctx.prop)
    if not ops or ctx.i != 0:
        return
    out = os.path.join(ctx.workdir, "suite-%s.json" % ctx.backend)
    e = dict(os.environ, PYTHONPATH=env.VERIF, PV_TRACE_BACKEND=ctx.backend, PYTHONHASHSEED="0")
    e[env.GUARD] = out
    p = subprocess.run([env.PY, "-m", "pytest", "-q", "-p", "harness.tracer", "-p", "no:cacheprovider", "--timeout=900",
                        "-x", "--co", "-q"] if False else
                       [env.PY, "-m", "pytest", "-q", "-p", "harness.tracer", "-p", "no:cacheprovider", "--timeout=900"] + PATHS,
                       cwd=env.REPO, env=e, stdout=subprocess.PIPE, stderr=subprocess.STDOUT, text=True)
    if not os.path.exists(out):
        raise env.Machinery("suite tracer produced no trace: " + p.stdout[-600:])
    evs = json.load(open(out))
    os.remove(out)
    n = 0
    for ev in evs:
        if ev["op"] in ops:
            ctx.add_event(ev)
            n += 1
    ctx.extra["suite_events_recorded"] = ctx.extra.get("suite_events_recorded", 0) + len(evs)
    ctx.extra["suite_events_judged"] = ctx.extra.get("suite_events_judged", 0) + n
