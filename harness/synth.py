"""Synthetic model zones: spec/synth_zones.json -> TZif files (for the real library, through
zoneinfo.TZPATH) and -> zone tables (for TLC), the latter by DECODING the written TZif files with
the same reader that decodes the real tz database, so both sides see one description."""
from __future__ import annotations

import calendar
import datetime as dt
import hashlib
import json
import os
import random
import struct

from . import env, zones


def _sec(s):
    d = dt.datetime.strptime(s, "%Y-%m-%d %H:%M:%S")
    return calendar.timegm(d.timetuple())


def tzif_bytes(desc):
    types = []
    abbrs = b""
    aidx = {}

    def tidx(off, dst, ab):
        nonlocal abbrs
        if ab not in aidx:
            aidx[ab] = len(abbrs)
            abbrs += ab.encode() + b"\0"
        t = (off, dst, aidx[ab])
        if t not in types:
            types.append(t)
        return types.index(t)

    tidx(*desc["init"])
    times = []
    idxs = []
    for (s, off, dst, ab) in desc["trs"]:
        times.append(_sec(s))
        idxs.append(tidx(off, dst, ab))

    def block(ver, fmt_t):
        h = b"TZif" + ver + b"\0" * 15 + struct.pack(">6l", 0, 0, 0, len(times), len(types), len(abbrs))
        b = h + b"".join(struct.pack(fmt_t, t) for t in times) + bytes(idxs)
        b += b"".join(struct.pack(">lBB", *t) for t in types) + abbrs
        return b

    v1 = b"TZif" + b"2" + b"\0" * 15 + struct.pack(">6l", 0, 0, 0, 0, 1, 4) + struct.pack(">lBB", 0, 0, 0) + b"UTC\0"
    return v1 + block(b"2", ">q") + b"\n" + desc["footer"].encode() + b"\n"


def build(force=False):
    src = os.path.join(env.SPEC, "synth_zones.json")
    raw = open(src, "rb").read()
    hv = hashlib.sha256(raw + open(zones.__file__, "rb").read() + open(__file__, "rb").read()).hexdigest()[:16]
    stamp = os.path.join(env.BUILD, "synth.stamp")
    out = os.path.join(env.BUILD, "synth-zones.json")
    if not force and os.path.exists(stamp) and open(stamp).read() == hv and os.path.exists(out):
        return out
    lk = env.lock("synth")
    try:
        desc = json.loads(raw)
        tables = {}
        for name, d in desc.items():
            if name.startswith("_"):
                continue
            p = os.path.join(env.TZDIR, name)
            os.makedirs(os.path.dirname(p), exist_ok=True)
            with open(p + ".tmp", "wb") as f:
                f.write(tzif_bytes(d))
            os.replace(p + ".tmp", p)
            tables[name] = zones.table(name, path=p)
        tables["UTC"] = zones.table("UTC")          # the real UTC zone, so that model-checking configs can use it
        # cross-check the decoded tables against plain zoneinfo loading the compiled files
        import zoneinfo

        old = zoneinfo.TZPATH
        zoneinfo.reset_tzpath([env.TZDIR] + list(old))
        try:
            rnd = random.Random(7)
            for name, z in tables.items():
                r = zones.crosscheck(z, rnd, 300)
                z.pop("_ts", None)
                if isinstance(r, str):
                    raise env.Machinery("synthetic zone table disagrees with zoneinfo: " + r)
                if name != "Verif/BackToBack":
                    r = zones.crosscheck_wall(z, rnd)
                    if isinstance(r, str):
                        raise env.Machinery("synthetic zone (wall look-up) disagrees with zoneinfo - is the description "
                                            "self-consistent (explicit transitions vs footer rule)? " + r)
        finally:
            zoneinfo.reset_tzpath(old)
        with open(out + ".tmp", "w") as f:
            json.dump(tables, f)
        os.replace(out + ".tmp", out)
        with open(stamp, "w") as f:
            f.write(hv)
        return out
    finally:
        lk.close()
