"""Running TLC: trace validation (Trace.tla) and model checking (MC_*.tla)."""
from __future__ import annotations

import json
import os
import re
import shutil
import subprocess
import time

from .env import SPEC, TLA_CP, Machinery

JAVA = ["java", "-XX:+UseSerialGC", "-Xss16m"]


def _tlc(args, env, cwd, heap="1500m", timeout=3600, parallel_gc=False):
    cmd = list(JAVA) + ["-Xmx" + heap, "-cp", TLA_CP, "tlc2.TLC"] + args
    if parallel_gc:
        cmd[1] = "-XX:+UseParallelGC"
    e = dict(os.environ)
    e.update(env)
    p = subprocess.run(cmd, cwd=cwd, env=e, stdout=subprocess.PIPE, stderr=subprocess.STDOUT, text=True,
                       timeout=timeout)
    return p.returncode, p.stdout


def judge(events, zones, workdir, tag="t", module="Trace", locales=None):
    """Validate `events` (list of dicts, each with a unique 'id') against the spec.
    Returns {id: {"c": labels, "v": failed clauses}} and TLC statistics."""
    os.makedirs(workdir, exist_ok=True)
    tf = os.path.join(workdir, tag + ".events.json")
    zf = os.path.join(workdir, tag + ".zones.json")
    with open(tf, "w") as f:
        json.dump(events, f, separators=(",", ":"))
    with open(zf, "w") as f:
        json.dump(zones, f, separators=(",", ":"))
    meta = os.path.join(workdir, tag + ".meta")
    t0 = time.time()
    for attempt in range(3):
        rc, out = _tlc(["-workers", "1", "-metadir", meta, "-noGenerateSpecTE", "-config", module + ".cfg",
                        module + ".tla"], {"PV_TRACE": tf, "PV_ZONES": zf, "PV_LOCALES": locales or ""}, SPEC)
        shutil.rmtree(meta, ignore_errors=True)
        # a JVM that could not start or was killed under memory pressure says nothing about the spec: retry;
        # an evaluation error of the spec (overflow, missing field, ...) is reported by TLC as "Error:"
        # (TLC's exit codes 150 and above are its SYSTEM errors - out of memory, thread or file trouble - which a
        # loaded machine produces transiently: those are retried too)
        if rc == 0 or ("Error:" in out and rc < 150):
            break
        time.sleep(2 + 3 * attempt)
    res = {}
    consumed = None
    for line in out.splitlines():
        if line.startswith('"{'):
            try:
                r = json.loads(json.loads(line))
            except ValueError:
                continue
            res[r["id"]] = r
        elif line.startswith('<<"CONSUMED"'):
            m = re.findall(r"-?\d+", line)
            consumed = (int(m[0]), int(m[1]))
    st = parse_stats(out)
    ok = rc == 0 and consumed is not None and consumed[0] == consumed[1] == len(events) and len(res) == len(events)
    if not ok:
        # locate the event TLC choked on
        last = len(res)
        log = os.path.join(workdir, tag + ".tlc.log")
        with open(log, "w") as f:
            f.write(out)
        culprit = events[last] if last < len(events) else None
        raise Machinery("trace validation did not complete (rc=%s, judged %d of %d); TLC log %s; next event %s"
                        % (rc, len(res), len(events), log, json.dumps(culprit)[:1500]))
    if not os.environ.get('PV_KEEP_TRACE'):
        os.remove(tf)
        os.remove(zf)
    st["wall_s"] = time.time() - t0
    return res, st


def parse_stats(out):
    st = {"states": 0, "distinct": 0, "transitions": 0}
    m = re.findall(r"(\d+) states generated, (\d+) distinct states found", out)
    if m:
        st["transitions"] = int(m[-1][0])
        st["states"] = int(m[-1][1])
        st["distinct"] = int(m[-1][1])
    return st


def model_check(module, cfg, env=None, workers=8, workdir=None, extra=None, heap="4g", timeout=3600,
                simulate=None, coverage=False):
    """Run TLC on an MC module.  Returns (ok, stats, output)."""
    meta = os.path.join(workdir, module + "." + os.path.basename(cfg) + ".meta")
    args = ["-workers", str(workers), "-metadir", meta, "-noGenerateSpecTE", "-config", cfg]
    if coverage:
        args += ["-coverage", "1"]
    if simulate:
        args += ["-simulate", simulate]
    if extra:
        args += extra
    args.append(module + ".tla")
    t0 = time.time()
    rc, out = _tlc(args, env or {}, SPEC, heap=heap, timeout=timeout, parallel_gc=True)
    shutil.rmtree(meta, ignore_errors=True)
    st = parse_stats(out)
    st["wall_s"] = time.time() - t0
    st["rc"] = rc
    ok = rc == 0 and "Model checking completed. No error has been found." in out
    if simulate:
        ok = rc == 0
    return ok, st, out


def coverage_counts(out):
    """per-action counts from -coverage 1 output: {action: (distinct, total)}"""
    cov = {}
    for m in re.finditer(r"<(\w+) line \d+, col \d+ to line \d+, col \d+ of module (\w+)>: (\d+):(\d+)", out):
        cov[m.group(1)] = (int(m.group(3)), int(m.group(4)))
    return cov
