"""pytest plugin: records the public pendulum calls the REPOSITORY'S OWN TESTS make, as events in the format of
harness/ops.py, so that TLC can judge every intermediate value those tests compute (not only what they assert).

Loaded from outside the repository with `-p harness.tracer` (PYTHONPATH=/verif) and active only when the guard
variable PENDULUM_VERIF_TRACE=<output file> is set.  It wraps a whitelist of public methods at import time;
a depth counter makes sure only the outermost call is logged; logging happens in `finally`, on the error path
too.  No file of the repository is modified."""
from __future__ import annotations

import functools
import json
import os

FILE = os.environ.get("PENDULUM_VERIF_TRACE")
EVENTS = []
DEPTH = [0]
UNITS_CAL = ("years", "months", "weeks", "days")
UNITS_FIX = ("hours", "minutes", "seconds", "microseconds")
KEYMAP = {"years": "y", "months": "mo", "weeks": "w", "days": "d", "hours": "h", "minutes": "mi", "seconds": "s", "microseconds": "us"}


def _ints(d):
    return all(isinstance(v, int) and not isinstance(v, bool) and abs(v) < 10 ** 9 for v in d.values())


def install():
    import datetime as _dt

    import pendulum
    from pendulum.date import Date
    from pendulum.datetime import DateTime
    from pendulum.time import Time

    from . import proj

    def known(v):
        s = json.dumps(v)
        return '"n": "?"' not in s

    def log(op, a, pre_objs, result):
        pre = [proj.enc(o) for o in pre_objs]
        post = proj.enc(result)
        ev = {"op": op, "bk": os.environ.get("PV_TRACE_BACKEND", "rs"), "a": a, "pre": pre, "post": post,
              "tag": os.environ.get("PYTEST_CURRENT_TEST", "")[:120]}
        if known(ev):
            try:
                proj.chk(ev)
                EVENTS.append(ev)
            except (OverflowError, TypeError):
                pass

    def wrap(cls, name, describe):
        orig = cls.__dict__.get(name)
        if orig is None:
            return

        @functools.wraps(orig)
        def wrapper(self, *args, **kwargs):
            outer = DEPTH[0] == 0
            DEPTH[0] += 1
            d = None
            if outer:
                try:
                    d = describe(self, args, kwargs)
                except Exception:  # noqa: BLE001
                    d = None
            res = None
            try:
                res = orig(self, *args, **kwargs)
                return res
            except Exception as e:
                res = e
                raise
            finally:
                DEPTH[0] -= 1
                if outer and d is not None:
                    try:
                        log(d[0], d[1], d[2], res)
                    except Exception:  # noqa: BLE001
                        pass

        setattr(cls, name, wrapper)

    def bind(names, args, kwargs, defaults):
        out = dict(defaults)
        for n, v in zip(names, args):
            out[n] = v
        out.update(kwargs)
        return out

    def d_addsub(entry):
        def describe(self, args, kwargs):
            kw = bind(UNITS_CAL + UNITS_FIX, args, kwargs, {})
            if not _ints(kw) or type(self) is not DateTime:
                return None
            if any(kw.get(u) for u in UNITS_CAL):
                c = {v: 0 for v in KEYMAP.values()}
                for k, v in kw.items():
                    c[KEYMAP[k]] = v
                return ("add_cal", {"c": c, "entry": entry}, [self])
            return ("add_fixed", {"h": kw.get("hours", 0), "mi": kw.get("minutes", 0), "s": kw.get("seconds", 0),
                                  "us": kw.get("microseconds", 0), "entry": entry}, [self])
        return describe

    def d_date_addsub(entry):
        def describe(self, args, kwargs):
            kw = bind(UNITS_CAL, args, kwargs, {})
            if not _ints(kw) or type(self) is not Date:
                return None
            c = {v: 0 for v in KEYMAP.values()}
            for k, v in kw.items():
                c[KEYMAP[k]] = v
            return ("add_cal_date", {"c": c, "entry": entry}, [self])
        return describe

    def cfg():
        return {"ws": int(pendulum._WEEK_STARTS_AT), "we": int(pendulum._WEEK_ENDS_AT)}

    def d_mod(op):
        def describe(self, args, kwargs):
            unit = bind(("unit",), args, kwargs, {}).get("unit")
            if type(self) not in (DateTime, Date) or unit not in ("second", "minute", "hour", "day", "week", "month", "year", "decade", "century"):
                return None
            if type(self) is Date and unit in ("second", "minute", "hour"):
                return None
            c = cfg()
            if (c["ws"] + 6) % 7 != c["we"]:
                return None                     # only the consistent week configurations are specified
            return (op, {"unit": unit, "cfg": c, "how": "suite"}, [self])
        return describe

    def d_nav(op):
        def describe(self, args, kwargs):
            kw = bind(("day_of_week", "keep_time"), args, kwargs, {"day_of_week": None, "keep_time": False})
            if type(self) not in (DateTime, Date):
                return None
            wd = kw["day_of_week"]
            if wd is not None and not 0 <= int(wd) <= 6:
                return None
            return (op, {"wd": -1 if wd is None else int(wd), "keep": bool(kw["keep_time"])}, [self])
        return describe

    def d_of(op):
        def describe(self, args, kwargs):
            if op == "nth_of":
                kw = bind(("unit", "nth", "day_of_week"), args, kwargs, {})
                if kw.get("unit") not in ("month", "quarter", "year") or not isinstance(kw.get("nth"), int) or not 1 <= kw["nth"] <= 60:
                    return None
                return (op, {"unit": kw["unit"], "n": kw["nth"], "wd": int(kw["day_of_week"])}, [self])
            kw = bind(("unit", "day_of_week"), args, kwargs, {"day_of_week": None})
            if kw.get("unit") not in ("month", "quarter", "year"):
                return None
            wd = kw["day_of_week"]
            return (op, {"unit": kw["unit"], "wd": -1 if wd is None else int(wd)}, [self])
        return describe

    def d_in_tz(self, args, kwargs):
        tz = bind(("tz",), args, kwargs, {}).get("tz")
        if type(self) is not DateTime:
            return None
        zr, _k = proj.zref(pendulum._safe_timezone(tz))
        if self.tzinfo is None:
            return ("naive_in_tz", {"tz": zr}, [self])
        return ("in_tz", {"tz": zr}, [self])

    def d_time(entry):
        def describe(self, args, kwargs):
            kw = bind(UNITS_FIX, args, kwargs, {})
            if not _ints(kw) or type(self) is not Time:
                return None
            return ("time_add", {"h": kw.get("hours", 0), "mi": kw.get("minutes", 0), "s": kw.get("seconds", 0),
                                 "us": kw.get("microseconds", 0), "entry": entry}, [self])
        return describe

    wrap(DateTime, "add", d_addsub("add"))
    wrap(DateTime, "subtract", d_addsub("subtract"))
    wrap(Date, "add", d_date_addsub("add"))
    wrap(Date, "subtract", d_date_addsub("subtract"))
    for cls in (DateTime, Date):
        wrap(cls, "start_of", d_mod("start_of"))
        wrap(cls, "end_of", d_mod("end_of"))
        wrap(cls, "next", d_nav("next"))
        wrap(cls, "previous", d_nav("previous"))
        wrap(cls, "first_of", d_of("first_of"))
        wrap(cls, "last_of", d_of("last_of"))
        wrap(cls, "nth_of", d_of("nth_of"))
    wrap(DateTime, "in_timezone", d_in_tz)
    wrap(Time, "add", d_time("add"))
    wrap(Time, "subtract", d_time("subtract"))

    # pendulum.datetime(): the normalising constructor
    orig_dt = pendulum.datetime

    @functools.wraps(orig_dt)
    def datetime_(*args, **kwargs):
        outer = DEPTH[0] == 0
        DEPTH[0] += 1
        res = None
        try:
            res = orig_dt(*args, **kwargs)
            return res
        except Exception as e:
            res = e
            raise
        finally:
            DEPTH[0] -= 1
            if outer:
                try:
                    kw = bind(("year", "month", "day", "hour", "minute", "second", "microsecond", "tz", "fold", "raise_on_unknown_times"),
                              args, kwargs, {"hour": 0, "minute": 0, "second": 0, "microsecond": 0, "tz": pendulum.UTC, "fold": 1,
                                             "raise_on_unknown_times": False})
                    w = [kw[k] for k in ("year", "month", "day", "hour", "minute", "second", "microsecond")]
                    if all(isinstance(v, int) for v in w) and 2 < w[0] < 9998:
                        _dt.datetime(*w)
                        tz = kw["tz"]
                        zr = {"n": "naive", "fo": 0} if tz is None else proj.zref(pendulum._safe_timezone(tz))[0]
                        log("create", {"tz": zr, "w": w, "f": int(kw["fold"]), "strict": bool(kw["raise_on_unknown_times"]),
                                       "entry": "datetime", "cls": "DateTime"}, [], res)
                except Exception:  # noqa: BLE001
                    pass

    pendulum.datetime = datetime_


if FILE:
    from . import env

    env.bootstrap(os.environ.get("PV_TRACE_BACKEND", "rs"))
    install()


def pytest_sessionfinish(session, exitstatus):
    if FILE:
        with open(FILE, "w") as f:
            json.dump(EVENTS, f)
