"""TZif reader: the tz database as *specification data*.

Reads the same TZif files CPython's zoneinfo reads (zoneinfo.TZPATH order, then the
tzdata wheel) and turns each zone into the table the TLA+ module Zones.tla interprets:

  {"name": key, "init": off0, "ly": Y, "trs": [{"at":[day,sec],"off":o,"dst":0|1,"ab":[codepoints]}...],
   "rule": {"has":0|1,"so","do","sm","sw","sd","st","em","ew","ed","et","sa":[..],"da":[..]}}

`trs` holds every explicit transition of the file plus the POSIX footer rule expanded
through year `ly` (inclusive, complete); for wall/UTC years > ly Zones.tla evaluates the
rule natively.  Nothing here computes an expected value for a check: the module only
decodes files.  `crosscheck` compares the decoded table with plain zoneinfo.ZoneInfo
(never pendulum) and is a machinery failure (exit 2) if they differ.
"""
from __future__ import annotations

import bisect
import calendar
import datetime as dt
import hashlib
import json
import os
import re
import struct
import zoneinfo

E = dt.date(1970, 1, 1).toordinal()
MIN_SEC = (2 - 1970) * 31556952  # about year 2 (used only to clip probes)


def find(key):
    for base in zoneinfo.TZPATH:
        p = os.path.join(base, key)
        if os.path.isfile(p):
            return p
    import importlib.resources as ir

    parts = key.split("/")
    pkg = "tzdata.zoneinfo" + ("." + ".".join(parts[:-1]) if len(parts) > 1 else "")
    return str(ir.files(pkg).joinpath(parts[-1]))


def read(key, path=None):
    b = open(path or find(key), "rb").read()

    def hdr(o):
        assert b[o:o + 4] == b"TZif"
        ver = b[o + 4:o + 5]
        c = struct.unpack(">6l", b[o + 20:o + 44])
        return ver, c

    ver, (isut, isstd, leap, timecnt, typecnt, charcnt) = hdr(0)
    o = 44
    if ver >= b"2":
        o += timecnt * 4 + timecnt + typecnt * 6 + charcnt + leap * 8 + isstd + isut
        ver, (isut, isstd, leap, timecnt, typecnt, charcnt) = hdr(o)
        o += 44
        ts = 8
        fmt = ">%dq"
    else:
        ts = 4
        fmt = ">%dl"
    times = struct.unpack(fmt % timecnt, b[o:o + timecnt * ts])
    o += timecnt * ts
    idx = b[o:o + timecnt]
    o += timecnt
    types = [struct.unpack(">lBB", b[o + i * 6:o + i * 6 + 6]) for i in range(typecnt)]
    o += typecnt * 6
    abbr = b[o:o + charcnt]
    o += charcnt + leap * (ts + 4) + isstd + isut
    footer = b""
    if ts == 8:
        assert b[o:o + 1] == b"\n"
        e = b.index(b"\n", o + 1)
        footer = b[o + 1:e]

    def ab(i):
        return abbr[i:abbr.index(b"\0", i)].decode()

    tt = [(u, d, ab(a)) for (u, d, a) in types]
    return times, [tt[i] for i in idx], tt, footer.decode()


_POSIX = re.compile(
    r"^(<[^>]+>|[A-Za-z]{3,})([+-]?\d+(?::\d+(?::\d+)?)?)"
    r"(?:(<[^>]+>|[A-Za-z]{3,})([+-]?\d+(?::\d+(?::\d+)?)?)?(?:,([^,]+),([^,]+))?)?$"
)


def parse_posix(s):
    m = _POSIX.match(s)
    assert m, s

    def off(x):
        sg = -1 if x.startswith("-") else 1
        x = x.lstrip("+-")
        p = [int(v) for v in x.split(":")] + [0, 0]
        return sg * (p[0] * 3600 + p[1] * 60 + p[2])

    std = m.group(1).strip("<>")
    stdoff = -off(m.group(2))
    if not m.group(3):
        return (std, stdoff, None)
    dst = m.group(3).strip("<>")
    dstoff = -off(m.group(4)) if m.group(4) else stdoff + 3600

    def rule(r):
        d, _, t = r.partition("/")
        tsec = off(t) if t else 7200
        if not d.startswith("M"):
            raise SystemExit("MACHINERY: unsupported POSIX TZ rule form %r" % s)
        mm, w, wd = [int(v) for v in d[1:].split(".")]
        return (mm, w, wd, tsec)

    return (std, stdoff, (dst, dstoff, rule(m.group(5)), rule(m.group(6))))


def rule_day(year, r):
    mm, w, wd, t = r
    first = dt.date(year, mm, 1)
    fw = (first.weekday() + 1) % 7  # 0 = Sunday
    d = 1 + (wd - fw) % 7 + (w - 1) * 7
    dim = calendar.monthrange(year, mm)[1]
    while d > dim:
        d -= 7
    return dt.date(year, mm, d).toordinal(), t


def ds(sec):
    return [sec // 86400 + E, sec % 86400]


def cps(s):
    return [ord(c) for c in s]


MIN_LY = 2039


def table(key, path=None):
    times, infos, tt, footer = read(key, path)
    init = None
    for (u, d, a) in tt:
        if not d:
            init = (u, d, a)
            break
    if init is None:
        init = infos[0] if infos else tt[0]
    trs = [(t,) + i for t, i in zip(times, infos)]
    rule = {"has": 0, "so": 0, "do": 0, "sm": 1, "sw": 1, "sd": 0, "st": 0,
            "em": 1, "ew": 1, "ed": 0, "et": 0, "sa": [], "da": []}
    ly = 9999
    if footer:
        std, stdoff, dstp = parse_posix(footer)
        last = trs[-1][0] if trs else -2 ** 62
        if dstp is None:
            # constant after the last transition
            if trs and (trs[-1][1], trs[-1][3]) != (stdoff, std):
                trs.append((last + 1, stdoff, 0, std))  # never happens in practice; cross-check decides
            if not trs and (init[0], init[2]) != (stdoff, std):
                init = (stdoff, 0, std)
        else:
            dst, dstoff, rs, re_ = dstp
            lasty = (dt.datetime(1970, 1, 1) + dt.timedelta(seconds=max(last, -62135596800))).year if trs else 1
            ly = max(lasty + 2, MIN_LY)
            y0 = max(1, lasty - 1) if trs else 1
            for y in range(y0, ly + 2):
                d1, t1 = rule_day(y, rs)
                d2, t2 = rule_day(y, re_)
                a = (d1 - E) * 86400 + t1 - stdoff
                b = (d2 - E) * 86400 + t2 - dstoff
                for (t, info) in sorted([(a, (dstoff, 1, dst)), (b, (stdoff, 0, std))]):
                    if t > last:
                        trs.append((t,) + info)
            # keep only transitions whose UTC year <= ly (complete through ly); rule era = years > ly
            lim = (dt.date(ly + 1, 1, 1).toordinal() - E) * 86400
            trs = [t for t in trs if t[0] < lim]
            rule = {"has": 1, "so": stdoff, "do": dstoff,
                    "sm": rs[0], "sw": rs[1], "sd": rs[2], "st": rs[3],
                    "em": re_[0], "ew": re_[1], "ed": re_[2], "et": re_[3],
                    "sa": cps(std), "da": cps(dst)}
    # drop transitions before year 2 (they cannot be represented as ordinal days >= 1)
    lo = (2 - E) * 86400
    keep = []
    for t in trs:
        if t[0] < lo:
            init = t[1:]
        else:
            keep.append(t)
    return {
        "name": key,
        "init": init[0],
        "idst": int(bool(init[1])),
        "iab": cps(init[2]),
        "ly": ly,
        "trs": [{"at": ds(t), "off": o, "dst": int(bool(d)), "ab": cps(a)} for (t, o, d, a) in keep],
        "rule": rule,
    }


# ----------------------------------------------------------------------------------------
# Python mirror of the table semantics, used ONLY by crosscheck (table vs plain zoneinfo)
# and by drivers to *enumerate stimuli* (where the transitions are); never as an oracle.

def nth_wd(year, m, w, wd):
    return rule_day(year, (m, w, wd, 0))[0]


def rule_trs(z, years):
    r = z["rule"]
    out = []
    for y in years:
        if y < 1 or y > 9999:
            continue
        a = (nth_wd(y, r["sm"], r["sw"], r["sd"]) - E) * 86400 + r["st"] - r["so"]
        b = (nth_wd(y, r["em"], r["ew"], r["ed"]) - E) * 86400 + r["et"] - r["do"]
        out += [(a, r["do"], 1), (b, r["so"], 0)]
    return sorted(out)


def transitions_utc(z, y0=None, y1=None):
    """(utc_sec, off_before, off_after) for explicit + rule-era transitions within [y0,y1]."""
    out = []
    prev = z["init"]
    for t in z["trs"]:
        sec = (t["at"][0] - E) * 86400 + t["at"][1]
        out.append((sec, prev, t["off"]))
        prev = t["off"]
    if z["rule"]["has"] and y1 is not None and y1 > z["ly"]:
        for (sec, off, _d) in rule_trs(z, range(max(z["ly"] + 1, y0 or 0), y1 + 1)):
            if out and sec <= out[-1][0]:
                continue
            out.append((sec, prev, off))
            prev = off
    if y0 is not None or y1 is not None:
        lo = (dt.date(y0 or 1, 1, 1).toordinal() - E) * 86400
        hi = (dt.date(min((y1 or 9998) + 1, 9999), 1, 1).toordinal() - E) * 86400
        out = [x for x in out if lo <= x[0] < hi]
    return out


def off_at(z, sec):
    """Python mirror of OffUtc for the cross-check."""
    year = (dt.datetime(1970, 1, 1) + dt.timedelta(seconds=sec)).year
    if z["rule"]["has"] and year > z["ly"]:
        tr = rule_trs(z, (year - 1, year, year + 1))
        ts = [t[0] for t in tr]
        i = bisect.bisect_right(ts, sec) - 1
        return tr[i][1]
    ts = z.setdefault("_ts", [(t["at"][0] - E) * 86400 + t["at"][1] for t in z["trs"]])
    i = bisect.bisect_right(ts, sec) - 1
    return z["init"] if i < 0 else z["trs"][i]["off"]


def pep_off(z, wall_sec, fold):
    """Python mirror of Zones.tla Pep (PEP 495 look-up by wall clock), for the cross-check only"""
    year = (dt.datetime(1970, 1, 1) + dt.timedelta(seconds=wall_sec)).year
    if z["rule"]["has"] and year > z["ly"]:
        tr = rule_trs(z, (year - 1, year, year + 1))
        init = z["rule"]["so"] if tr[0][2] == 1 else z["rule"]["do"]
        rows = [(t, o) for (t, o, _d) in tr]
    else:
        init = z["init"]
        rows = [((t["at"][0] - E) * 86400 + t["at"][1], t["off"]) for t in z["trs"]]
    prev = init
    res = init
    for (t, o) in rows:
        key = t + (max(prev, o) if fold == 0 else min(prev, o))
        if key <= wall_sec:
            res = o
        else:
            break
        prev = o
    return res


def crosscheck_wall(z, rnd):
    """utcoffset() of naive wall readings with both folds around every transition vs the table semantics"""
    zi = zoneinfo.ZoneInfo(z["name"])
    n = 0
    trs = transitions_utc(z, 2, min(z["ly"] + 30, 9990))
    if len(trs) > 120:
        trs = rnd.sample(trs, 120)
    for (sec, a, b) in trs:
        for off in (a, b):
            for d in (-1, 0, 1, abs(a - b) // 2, -abs(a - b) // 2):
                ws = sec + off + d
                if not (-62135596800 + 86400 * 400 < ws < 253402300799 - 86400 * 400):
                    continue
                w = dt.datetime(1970, 1, 1) + dt.timedelta(seconds=ws)
                for fold in (0, 1):
                    got = int(w.replace(tzinfo=zi, fold=fold).utcoffset().total_seconds())
                    if got != pep_off(z, ws, fold):
                        return "zone %s wall=%s fold=%d zoneinfo=%d table=%d" % (z["name"], w, fold, got, pep_off(z, ws, fold))
                    n += 1
    return n


def crosscheck(z, rnd, nrand=200):
    """Compare the decoded table (and rule) with plain zoneinfo at every transition +-1 s and random instants."""
    zi = zoneinfo.ZoneInfo(z["name"])
    UTC = dt.timezone.utc
    EP = dt.datetime(1970, 1, 1, tzinfo=UTC)
    probes = []
    for (sec, _a, _b) in transitions_utc(z, 2, min(z["ly"] + 30, 9990)):
        probes += [sec - 1, sec, sec + 1]
    hi = (dt.date(9998, 1, 1).toordinal() - E) * 86400
    lo = (dt.date(3, 1, 1).toordinal() - E) * 86400
    probes += [rnd.randrange(lo, hi) for _ in range(nrand)]
    n = 0
    for sec in probes:
        if not (lo < sec < hi):
            continue
        loc = (EP + dt.timedelta(seconds=sec)).astimezone(zi)
        got = int(loc.utcoffset().total_seconds())
        if got != off_at(z, sec):
            return "zone %s utc=%d zoneinfo=%d table=%d" % (z["name"], sec, got, off_at(z, sec))
        n += 1
    return n


def all_keys():
    return sorted(zoneinfo.available_timezones())


def tzdata_fingerprint():
    h = hashlib.sha256()
    for k in all_keys():
        try:
            h.update(open(find(k), "rb").read())
        except OSError:
            h.update(k.encode())
    return h.hexdigest()[:16]


def load_all(build_dir, rebuild=False):
    """All zone tables, cached under build_dir keyed by the content hash of the TZif files."""
    os.makedirs(build_dir, exist_ok=True)
    fp = tzdata_fingerprint()
    path = os.path.join(build_dir, "zones-%s.json" % fp)
    if os.path.exists(path) and not rebuild:
        with open(path) as f:
            return json.load(f)
    import random

    rnd = random.Random(12345)
    out = {}
    checked = 0
    for k in all_keys():
        z = table(k)
        r = crosscheck(z, rnd)
        if isinstance(r, str):
            raise SystemExit("MACHINERY: TZif reader disagrees with zoneinfo: " + r)
        checked += r
        r = crosscheck_wall(z, rnd)
        if isinstance(r, str):
            print("NOTE: wall-clock look-up differs from zoneinfo (first transition uses the file's type 0): " + r)
        z.pop("_ts", None)
        out[k] = z
    tmp = path + ".tmp%d" % os.getpid()
    with open(tmp, "w") as f:
        json.dump(out, f)
    os.replace(tmp, path)
    return out


if __name__ == "__main__":
    import sys
    import time

    t0 = time.time()
    zs = load_all(sys.argv[1] if len(sys.argv) > 1 else "/verif/build", rebuild=True)
    print("zones", len(zs), "transitions", sum(len(z["trs"]) for z in zs.values()), "rules",
          sum(z["rule"]["has"] for z in zs.values()), "secs", round(time.time() - t0, 1))
