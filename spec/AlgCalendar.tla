----------------------------- MODULE AlgCalendar -----------------------------
(***************************************************************************)
(* Implementation-shaped transcriptions of pendulum's calendar helpers      *)
(* (src/pendulum/_helpers.py and rust/src/helpers.rs compute the same way).  *)
(* They describe HOW today's code computes; MC_Calendar checks that they     *)
(* refine the reference semantics of Calendar.tla.  Divergence of the code   *)
(* from an Alg* module is never a violation, only divergence from Calendar.  *)
(***************************************************************************)
EXTENDS Calendar

DAY_OF_WEEK_TABLE == <<0, 3, 2, 5, 0, 3, 5, 1, 4, 6, 2, 4>>
P(y) == y + y \div 4 - y \div 100 + y \div 400
\* week_day(): Sakamoto's method with the month table
AlgWeekDay(year, month, day) ==
  LET y == IF month < 3 THEN year - 1 ELSE year
      w == (P(y) + DAY_OF_WEEK_TABLE[month] + day) % 7
  IN IF w = 0 THEN 7 ELSE w
\* is_long_year(): p(y) % 7 = 4 or p(y-1) % 7 = 3
AlgIsLongYear(y) == (P(y) % 7 = 4) \/ (P(y - 1) % 7 = 3)
\* Date.day_of_year: (275 m) // 9 - k ((m + 9) // 12) + d - 30,  k = 1 leap / 2 common
AlgDayOfYear(y, m, d) == LET k == IF IsLeap(y) THEN 1 ELSE 2
                         IN (275 * m) \div 9 - k * ((m + 9) \div 12) + d - 30
\* rust day_number(): days since a March-based epoch (used by the Rust parser)
AlgDayNumber(y0, m0, d) == LET m == (m0 + 9) % 12
                               y == y0 - m \div 10
                           IN 365 * y + y \div 4 - y \div 100 + y \div 400 + (m * 306 + 5) \div 10 + (d - 1)
=============================================================================
