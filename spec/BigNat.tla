-------------------------------- MODULE BigNat --------------------------------
(***************************************************************************)
(* Natural numbers of arbitrary size as little-endian sequences of base     *)
(* 10^4 limbs (TLC integers are 32-bit): the numbers of ISO 8601 durations  *)
(* can have any number of digits.  <<>> is zero; no leading (high) zeros.   *)
(***************************************************************************)
EXTENDS Integers, Sequences

BASE == 10000
RECURSIVE BNTrim(_)
BNTrim(a) == IF a = <<>> THEN <<>> ELSE IF a[Len(a)] = 0 THEN BNTrim(SubSeq(a, 1, Len(a) - 1)) ELSE a
IsDigit(c) == c >= 48 /\ c <= 57
\* decimal digit string (code points, most significant first) -> BigNat
RECURSIVE BNOfDigitsR(_, _)
BNOfDigitsR(ds, hi) ==       \* limbs of ds[1..hi]
  IF hi <= 0 THEN <<>>
  ELSE LET lo == IF hi - 3 > 1 THEN hi - 3 ELSE 1
           v4 == LET d(i) == IF i >= lo THEN ds[i] - 48 ELSE 0
                 IN d(hi) + 10 * d(hi - 1) + 100 * d(hi - 2) + 1000 * d(hi - 3)
       IN <<v4>> \o BNOfDigitsR(ds, lo - 1)
BNOfDigits(ds) == BNTrim(BNOfDigitsR(ds, Len(ds)))
BNOfInt(n) == BNTrim(<<n % BASE, (n \div BASE) % BASE, n \div (BASE * BASE)>>)      \* 0 <= n < 2^31
\* value if it fits 0 .. 2*10^9, else -1
BNToInt(a) == IF Len(a) = 0 THEN 0
              ELSE IF Len(a) = 1 THEN a[1]
              ELSE IF Len(a) = 2 THEN a[1] + BASE * a[2]
              ELSE IF Len(a) = 3 /\ a[3] <= 20 THEN a[1] + BASE * a[2] + BASE * BASE * a[3]
              ELSE -1
\* a * k + c   (0 <= k <= 200000, 0 <= c < 2*10^9 / ... carry kept below 2^31)
RECURSIVE BNMulAdd(_, _, _)
BNMulAdd(a, k, c) == IF a = <<>> THEN (IF c = 0 THEN <<>> ELSE <<c % BASE>> \o BNMulAdd(<<>>, k, c \div BASE))
                     ELSE LET t == a[1] * k + c IN <<t % BASE>> \o BNMulAdd(Tail(a), k, t \div BASE)
BNMulSmall(a, k) == BNTrim(BNMulAdd(a, k, 0))
\* a + b
RECURSIVE BNAddC(_, _, _)
BNAddC(a, b, c) == IF a = <<>> /\ b = <<>> THEN (IF c = 0 THEN <<>> ELSE <<c>>)
                   ELSE LET x == IF a = <<>> THEN 0 ELSE a[1]   y == IF b = <<>> THEN 0 ELSE b[1]
                            t == x + y + c
                        IN <<t % BASE>> \o BNAddC(IF a = <<>> THEN <<>> ELSE Tail(a), IF b = <<>> THEN <<>> ELSE Tail(b), t \div BASE)
BNAdd(a, b) == BNTrim(BNAddC(a, b, 0))
\* division by a small number 1 <= k <= 200000: <<quotient, remainder>>
RECURSIVE BNDivR(_, _, _, _)
BNDivR(a, k, i, r) ==       \* processes limbs i..1 (high to low) with running remainder r; returns <<limbs low..., rem>>
  IF i = 0 THEN [q |-> <<>>, r |-> r]
  ELSE LET t == r * BASE + a[i]
           rest == BNDivR(a, k, i - 1, t % k)
       IN [q |-> rest.q \o <<t \div k>>, r |-> rest.r]
BNDivSmall(a, k) == LET x == BNDivR(a, k, Len(a), 0) IN [q |-> BNTrim(x.q), r |-> x.r]
BNIsZero(a) == a = <<>>
\* a * b (schoolbook: one BNMulSmall per limb of b)
RECURSIVE BNMulR(_, _, _)
BNMulR(a, b, i) == IF i > Len(b) THEN <<>>
                   ELSE BNAdd([j \in 1..(i - 1) |-> 0] \o BNMulSmall(a, b[i]), BNMulR(a, b, i + 1))
BNMul(a, b) == IF a = <<>> \/ b = <<>> THEN <<>> ELSE BNTrim(BNMulR(a, b, 1))
Pow2(k) == CASE k = 0 -> 1 [] k = 1 -> 2 [] k = 2 -> 4 [] k = 3 -> 8 [] k = 4 -> 16 [] k = 5 -> 32 [] k = 6 -> 64 [] k = 7 -> 128
             [] k = 8 -> 256 [] k = 9 -> 512 [] k = 10 -> 1024 [] k = 11 -> 2048
\* round-half-even(n / 2^e): the division is done in chunks of at most 11 bits; the quotient is rounded up when the
\* remainder exceeds half, or equals half and the quotient is odd
RECURSIVE BNShiftRound(_, _, _)
BNShiftRound(n, e, lowNZ) ==
  IF e = 0 THEN n
  ELSE IF e > 11 THEN LET d == BNDivSmall(n, 2048) IN BNShiftRound(d.q, e - 11, lowNZ \/ d.r # 0)
  ELSE LET d == BNDivSmall(n, Pow2(e))   half == Pow2(e - 1)
           odd == d.q # <<>> /\ d.q[1] % 2 = 1
           up == d.r > half \/ (d.r = half /\ (lowNZ \/ odd))
       IN IF up THEN BNAdd(d.q, <<1>>) ELSE d.q
\* 10^e as a small int (e <= 9)
Pow10(e) == CASE e = 0 -> 1 [] e = 1 -> 10 [] e = 2 -> 100 [] e = 3 -> 1000 [] e = 4 -> 10000 [] e = 5 -> 100000
              [] e = 6 -> 1000000 [] e = 7 -> 10000000 [] e = 8 -> 100000000 [] e = 9 -> 1000000000
=============================================================================
