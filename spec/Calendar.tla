------------------------------ MODULE Calendar ------------------------------
(***************************************************************************)
(* Proleptic Gregorian calendar: the reference semantics every pendulum    *)
(* calendar primitive is compared against (property C15) and on which all  *)
(* other modules build.  Ordinal day 1 is 0001-01-01 (a Monday).           *)
(* All operators are total on years 0..10000 and stay far below 2^31.      *)
(***************************************************************************)
EXTENDS Integers, Sequences

Max(a, b) == IF a > b THEN a ELSE b
Min(a, b) == IF a < b THEN a ELSE b
Abs(a) == IF a < 0 THEN -a ELSE a
Sign(a) == IF a < 0 THEN -1 ELSE IF a > 0 THEN 1 ELSE 0
\* truncating division / remainder (Python's int(a / b) for exact ints, Rust's / and %)
TDiv(a, b) == IF (a >= 0) = (b > 0) THEN Abs(a) \div Abs(b) ELSE -(Abs(a) \div Abs(b))
TRem(a, b) == a - b * TDiv(a, b)

IsLeap(y) == (y % 4 = 0) /\ ((y % 100 # 0) \/ (y % 400 = 0))
MOFF == <<0, 31, 59, 90, 120, 151, 181, 212, 243, 273, 304, 334>>
DIM  == <<31, 28, 31, 30, 31, 30, 31, 31, 30, 31, 30, 31>>
DaysInMonth(y, m) == IF m = 2 /\ IsLeap(y) THEN 29 ELSE DIM[m]
DaysInYear(y) == IF IsLeap(y) THEN 366 ELSE 365
\* days before month m of year y / days before year y
DBM(y, m) == MOFF[m] + (IF m > 2 /\ IsLeap(y) THEN 1 ELSE 0)
DBY(y) == LET p == y - 1 IN p * 365 + p \div 4 - p \div 100 + p \div 400
Ord(y, m, d) == DBY(y) + DBM(y, m) + d
ValidYMD(y, m, d) == y \in 1..9999 /\ m \in 1..12 /\ d \in 1..DaysInMonth(y, m)

\* closed form inverse of Ord (the algorithm of CPython's _ord2ymd)
YMD(n0) ==
  LET n == n0 - 1
      n400 == n \div 146097   r400 == n % 146097
      n100 == r400 \div 36524 r100 == r400 % 36524
      n4   == r100 \div 1461  r4   == r100 % 1461
      n1   == r4 \div 365     r1   == r4 % 365
      y    == n400 * 400 + n100 * 100 + n4 * 4 + n1 + 1
  IN IF n1 = 4 \/ n100 = 4 THEN <<y - 1, 12, 31>>
     ELSE LET lp == IF n1 = 3 /\ (n4 # 24 \/ n100 = 3) THEN 1 ELSE 0
              m0 == (r1 + 50) \div 32
              p0 == MOFF[m0] + (IF m0 > 2 THEN lp ELSE 0)
              mm == IF p0 > r1 THEN m0 - 1 ELSE m0
              pp == MOFF[mm] + (IF mm > 2 THEN lp ELSE 0)
          IN <<y, mm, r1 - pp + 1>>
YearOf(n0) ==
  LET n == n0 - 1
      n400 == n \div 146097   r400 == n % 146097
      n100 == r400 \div 36524 r100 == r400 % 36524
      n4   == r100 \div 1461  r4   == r100 % 1461
      n1   == r4 \div 365
      y    == n400 * 400 + n100 * 100 + n4 * 4 + n1 + 1
  IN IF n1 = 4 \/ n100 = 4 THEN y - 1 ELSE y
\* declarative characterisation of YMD, used by MC_Calendar to validate the closed form
IsYMDOf(t, n) == ValidYMD(t[1], t[2], t[3]) /\ Ord(t[1], t[2], t[3]) = n

\* independent second formulation: the successor of a date, by case analysis
NextYMD(t) == IF t[3] < DaysInMonth(t[1], t[2]) THEN <<t[1], t[2], t[3] + 1>>
              ELSE IF t[2] < 12 THEN <<t[1], t[2] + 1, 1>> ELSE <<t[1] + 1, 1, 1>>

\* ISO weekday 1 = Monday .. 7 = Sunday
Weekday(n) == ((n - 1) % 7) + 1
DayOfYear(y, m, d) == DBM(y, m) + d
Quarter(m) == (m - 1) \div 3 + 1

\* ISO 8601 week date: week 1 is the week (Mon..Sun) containing January 4th
IsoWeek1Monday(y) == LET first == Ord(y, 1, 1) wd == Weekday(first)
                     IN IF wd <= 4 THEN first - (wd - 1) ELSE first + (8 - wd)
IsoCal(n) == LET y  == YearOf(n)
                 iy == IF n >= IsoWeek1Monday(y + 1) THEN y + 1
                       ELSE IF n < IsoWeek1Monday(y) THEN y - 1 ELSE y
             IN <<iy, (n - IsoWeek1Monday(iy)) \div 7 + 1, Weekday(n)>>
WeeksInIsoYear(y) == (IsoWeek1Monday(y + 1) - IsoWeek1Monday(y)) \div 7
IsLongYear(y) == WeeksInIsoYear(y) = 53
\* ordinal of ISO week date (iy, w, wd); valid iff 1 <= w <= WeeksInIsoYear(iy), 1 <= wd <= 7
FromIsoWeek(iy, w, wd) == IsoWeek1Monday(iy) + (w - 1) * 7 + (wd - 1)

\* month arithmetic with end-of-month clamping (dateutil / pendulum add_duration rule)
AddMonths(y, m, d, k) == LET t == y * 12 + (m - 1) + k
                             ny == t \div 12  nm == (t % 12) + 1
                         IN <<ny, nm, Min(d, DaysInMonth(ny, nm))>>

\* POSIX TZ rule Mm.w.d : the w-th (5 = last) weekday wd0 (0 = Sunday) of month m
NthWd(y, m, w, wd0) == LET first == Ord(y, m, 1)
                           fw == Weekday(first) % 7
                           d == 1 + ((wd0 - fw) % 7) + (w - 1) * 7
                       IN first - 1 + (IF d > DaysInMonth(y, m) THEN d - 7 ELSE d)

\* n-th (n >= 1) ISO weekday wd inside month (y,m): day of month, or 0 if there is none
NthWeekdayOfMonth(y, m, n, wd) == LET first == Ord(y, m, 1)
                                      d == 1 + ((wd - Weekday(first)) % 7) + (n - 1) * 7
                                  IN IF d <= DaysInMonth(y, m) THEN d ELSE 0
LastWeekdayOfMonth(y, m, wd) == LET dim == DaysInMonth(y, m)
                                    lastwd == Weekday(Ord(y, m, dim))
                                IN dim - ((lastwd - wd) % 7)
=============================================================================
