------------------------------ MODULE FormatTokens ------------------------------
(***************************************************************************)
(* C08: format() tokens, named formats, from_format() inversion.            *)
(* C18: human-readable differences and in_words().                           *)
(* A format is a sequence of items <<"tok", name>> | <<"lit", text>> |        *)
(* <<"esc", text>>; the spec renders the format STRING from the items        *)
(* (RenderFormat) and the expected OUTPUT (FormatItems).  Localised words     *)
(* come from the locale tables exported from the working tree (PV_LOCALES):  *)
(* the spec decides which table entry must appear, not what it spells.       *)
(***************************************************************************)
EXTENDS Values, IsoText

LOC == JsonDeserialize(IOEnv.PV_LOCALES)
RECURSIVE DecN(_)
DecN(n) == IF n < 0 THEN <<cDash>> \o DecN(-n) ELSE IF n < 10 THEN <<48 + n>> ELSE DecN(n \div 10) \o <<48 + (n % 10)>>
\* BigNat -> decimal digits
RECURSIVE BNDigitsR(_, _)
BNDigitsR(a, i) == IF i = 0 THEN <<>> ELSE (IF i = Len(a) THEN DecN(a[i]) ELSE Pad4(a[i])) \o BNDigitsR(a, i - 1)
BNDigits(a) == IF a = <<>> THEN <<48>> ELSE BNDigitsR(a, Len(a))
Text(s) == s            \* code points

\* tzname(): the abbreviation the tz database gives the value's wall reading (with its fold)
AbbrOf(v) == IF IsNaive(v) THEN <<>>
             ELSE IF v.z.n = "" THEN <<>>          \* fixed offsets: the zone's own name, passed by the harness
             ELSE LET z0 == Z(v.z)  k0 == WDS(v.w)  yr == YearOf(k0[1]) IN
                  IF z0.rule.has = 1 /\ yr > z0.ly THEN (IF PepDst(z0, k0, v.f) = 1 THEN z0.rule.da ELSE z0.rule.sa)
                  ELSE LET k == Idx(z0, v.f, k0) IN IF k = 0 THEN z0.iab ELSE z0.trs[k].ab
\* Unix timestamp of an instant as sign and BigNat magnitude (whole seconds, floor)
TsOf(i) == LET d == i[1] - EpochDay IN
           IF d >= 0 THEN [neg |-> FALSE, mag |-> BNAdd(BNMulSmall(BNOfInt(d), 86400), BNOfInt(i[2]))]
           ELSE [neg |-> TRUE, mag |-> BNAdd(BNMulSmall(BNOfInt(-d - 1), 86400), BNOfInt(86400 - i[2]))]
\* millisecond timestamp: floor(seconds) * 1000 + ms  (for negative seconds: -(|s| * 1000 - ms))
TsMsDigits(i, ms) == LET t == TsOf(i) IN
   IF ~t.neg THEN BNDigits(BNAdd(BNMulSmall(t.mag, 1000), BNOfInt(ms)))
   ELSE IF ms = 0 THEN <<cDash>> \o BNDigits(BNMulSmall(t.mag, 1000))
   ELSE LET t2 == TsOf(I3AddSec(i, 1))                     \* one second later: magnitude smaller by one (or zero)
            m2 == IF t2.neg THEN t2.mag ELSE <<>>
        IN <<cDash>> \o BNDigits(BNAdd(BNMulSmall(m2, 1000), BNOfInt(1000 - ms)))
Ordinalize(L, n) == DecN(n) \o L.ord_suffix[L.ord_cat[n + 1]]
Tokens == {"YYYY", "YY", "Y", "Q", "Qo", "MMMM", "MMM", "MM", "M", "Mo", "DDDD", "DDD", "DD", "D", "Do", "dddd", "ddd", "dd", "d", "E",
           "HH", "H", "hh", "h", "mm", "m", "ss", "s", "S", "SS", "SSS", "SSSS", "SSSSS", "SSSSSS", "A", "Z", "ZZ", "z", "zz", "X", "x"}
\* tokens the formatter implements but the documentation does not list: part of the specification's extension
ExtTokens == {"DDDo", "wo", "do"}
TokText(tok, v, zname, L) ==
  LET w == v.w
      n == Ord(w[1], w[2], w[3])
      dow == Weekday(n) - 1
      doy == DayOfYear(w[1], w[2], w[3])
      h12 == IF w[4] % 12 = 0 THEN 12 ELSE w[4] % 12
      off == OffOf(v)
      ao == Abs(off)
  IN CASE tok \in {"YYYY", "Y"} -> DecN(w[1])
       [] tok = "YY" -> Pad2(w[1] % 100)
       [] tok = "Q" -> DecN(Quarter(w[2]))  [] tok = "Qo" -> Ordinalize(L, Quarter(w[2]))
       [] tok = "MMMM" -> L.months_wide[w[2]]  [] tok = "MMM" -> L.months_abbr[w[2]]
       [] tok = "MM" -> Pad2(w[2])  [] tok = "M" -> DecN(w[2])  [] tok = "Mo" -> Ordinalize(L, w[2])
       [] tok = "DDDD" -> Pad3(doy)  [] tok = "DDD" -> DecN(doy)  [] tok = "DDDo" -> Ordinalize(L, doy)
       [] tok = "wo" -> Ordinalize(L, IsoCal(n)[2])  [] tok = "do" -> Ordinalize(L, (dow + 1) % 7)
       [] tok = "DD" -> Pad2(w[3])  [] tok = "D" -> DecN(w[3])  [] tok = "Do" -> Ordinalize(L, w[3])
       [] tok = "dddd" -> L.days_wide[dow + 1]  [] tok = "ddd" -> L.days_abbr[dow + 1]  [] tok = "dd" -> L.days_short[dow + 1]
       [] tok = "d" -> DecN((dow + 1) % 7)  [] tok = "E" -> DecN(dow + 1)
       [] tok = "HH" -> Pad2(w[4])  [] tok = "H" -> DecN(w[4])  [] tok = "hh" -> Pad2(h12)  [] tok = "h" -> DecN(h12)
       [] tok = "mm" -> Pad2(w[5])  [] tok = "m" -> DecN(w[5])  [] tok = "ss" -> Pad2(w[6])  [] tok = "s" -> DecN(w[6])
       [] tok = "S" -> DecN(w[7] \div 100000)  [] tok = "SS" -> Pad2(w[7] \div 10000)  [] tok = "SSS" -> Pad3(w[7] \div 1000)
       [] tok = "SSSS" -> Pad4(w[7] \div 100)  [] tok = "SSSSS" -> D1(w[7] \div 100000) \o Pad4((w[7] \div 10) % 10000)
       [] tok = "SSSSSS" -> Pad6(w[7])
       [] tok = "A" -> (IF w[4] >= 12 THEN L.pm ELSE L.am)
       [] tok = "Z" -> (IF IsNaive(v) THEN <<>> ELSE <<IF off < 0 THEN cDash ELSE cPlus>> \o Pad2(ao \div 3600) \o <<cColon>> \o Pad2((ao % 3600) \div 60))
       [] tok = "ZZ" -> (IF IsNaive(v) THEN <<>> ELSE <<IF off < 0 THEN cDash ELSE cPlus>> \o Pad2(ao \div 3600) \o Pad2((ao % 3600) \div 60))
       [] tok = "z" -> zname
       [] tok = "zz" -> (IF IsNaive(v) THEN <<>> ELSE IF v.z.n = "" THEN zname ELSE AbbrOf(v))
       [] tok = "X" -> LET t == TsOf(InstOf(v)) IN (IF t.neg THEN <<cDash>> ELSE <<>>) \o BNDigits(t.mag)
       [] tok = "x" -> TsMsDigits(InstOf(v), w[7] \div 1000)
RECURSIVE FormatItems(_, _, _, _, _)
FormatItems(items, v, zname, L, i) ==
  IF i > Len(items) THEN <<>>
  ELSE (IF items[i][1] = "tok" THEN TokText(items[i][2], v, zname, L) ELSE items[i][2]) \o FormatItems(items, v, zname, L, i + 1)
\* the format STRING the items stand for: token names are sent as code points too (items[i][3])
RECURSIVE RenderFormat(_, _)
RenderFormat(items, i) ==
  IF i > Len(items) THEN <<>>
  ELSE (CASE items[i][1] = "tok" -> items[i][3]
          [] items[i][1] = "lit" -> items[i][2]
          [] items[i][1] = "esc" -> <<91>> \o items[i][2] \o <<93>>) \o RenderFormat(items, i + 1)
\* documented compositions of the named formats
Tk(n) == <<"tok", n>>
Lit(s) == <<"lit", s>>
NamedFormat(name) ==
  LET dash == Lit(<<cDash>>)  col == Lit(<<cColon>>)  sp == Lit(<<cSp>>)  comma == Lit(<<cComma, cSp>>)
      hms == <<Tk("HH"), col, Tk("mm"), col, Tk("ss")>>
  IN CASE name \in {"atom", "w3c", "iso8601_const", "rfc3339_const"} ->
            <<Tk("YYYY"), dash, Tk("MM"), dash, Tk("DD"), Lit(<<cT>>)>> \o hms \o <<Tk("Z")>>
       [] name = "cookie" -> <<Tk("dddd"), comma, Tk("DD"), dash, Tk("MMM"), dash, Tk("YYYY"), sp>> \o hms \o <<sp, Tk("zz")>>
       [] name = "rfc850" -> <<Tk("dddd"), comma, Tk("DD"), dash, Tk("MMM"), dash, Tk("YY"), sp>> \o hms \o <<sp, Tk("zz")>>
       [] name \in {"rfc822", "rfc1036"} -> <<Tk("ddd"), comma, Tk("DD"), sp, Tk("MMM"), sp, Tk("YY"), sp>> \o hms \o <<sp, Tk("ZZ")>>
       [] name \in {"rfc1123", "rfc2822", "rss"} -> <<Tk("ddd"), comma, Tk("DD"), sp, Tk("MMM"), sp, Tk("YYYY"), sp>> \o hms \o <<sp, Tk("ZZ")>>
       [] name = "datetime" -> <<Tk("YYYY"), dash, Tk("MM"), dash, Tk("DD"), sp>> \o hms
       [] name = "date" -> <<Tk("YYYY"), dash, Tk("MM"), dash, Tk("DD")>>
       [] name = "time" -> hms

\* ---------------------------------------------------------------- C18
\* replace every {} / {0} in tmpl by arg
RECURSIVE Subst(_, _, _)
Subst(tmpl, arg, i) ==
  IF i > Len(tmpl) THEN <<>>
  ELSE IF tmpl[i] = 123 /\ i + 1 <= Len(tmpl) /\ tmpl[i + 1] = 125 THEN arg \o Subst(tmpl, arg, i + 2)
  ELSE IF tmpl[i] = 123 /\ i + 2 <= Len(tmpl) /\ tmpl[i + 1] = 48 /\ tmpl[i + 2] = 125 THEN arg \o Subst(tmpl, arg, i + 3)
  ELSE <<tmpl[i]>> \o Subst(tmpl, arg, i + 1)
Fill(tmpl, arg) == Subst(tmpl, arg, 1)
HUnits == <<"year", "month", "week", "day", "hour", "minute", "second">>
PluralCat(L, n) == L.plural_cat[Abs(n) + 1]
UnitPhrase(L, unit, count) == Fill(L.units[unit][PluralCat(L, count)], DecN(count))
\* dir = "future" | "past"
Phrase(L, unit, count, isNow, absolute, dir) ==
  IF absolute THEN UnitPhrase(L, unit, count)
  ELSE IF isNow THEN Fill(L.relative[unit][dir][PluralCat(L, count)], DecN(count))
  ELSE LET ur == L.units_relative[unit][dir][PluralCat(L, count)]
           time == IF ur # <<>> THEN Fill(ur, DecN(count)) ELSE UnitPhrase(L, unit, count)
       IN Fill(IF dir = "future" THEN L.after ELSE L.before, time)
FewPhrase(L, isNow, absolute, dir) ==
  IF absolute THEN L.few_second
  ELSE Fill(IF isNow THEN (IF dir = "future" THEN L.from_now ELSE L.ago) ELSE (IF dir = "future" THEN L.after ELSE L.before), L.few_second)
\* c = <<years, months, weeks, remaining_days, hours, minutes, remaining_seconds>> (non-negative magnitudes)
LargestIdx(c) == IF \E i \in 1..7 : c[i] > 0 THEN CHOOSE i \in 1..7 : c[i] > 0 /\ \A j \in 1..(i - 1) : c[j] = 0 ELSE 0
\* admissible (unit index, count): the largest non-zero unit, or that unit rounded up by one when something
\* smaller remains, or its carry into the next larger unit (always within one unit of the elapsed time)
Admissible(c) ==
  LET i == LargestIdx(c) IN
  IF i = 0 THEN {<<7, 1>>, <<7, 0>>}
  ELSE LET restNonZero == \E j \in (i + 1)..7 : c[j] > 0 IN
       {<<i, c[i]>>} \cup (IF restNonZero THEN {<<i, c[i] + 1>>} ELSE {})
       \cup (IF i = 2 /\ c[2] = 11 /\ restNonZero THEN {<<1, 1>>} ELSE {})
HumanCandidates(L, c, isNow, absolute, dir) ==
  {Phrase(L, HUnits[uc[1]], uc[2], isNow, absolute, dir) : uc \in {x \in Admissible(c) : x[2] > 0}}
  \cup (IF L.few_second # <<>> /\ LargestIdx(c) \in {0, 7} /\ c[7] <= 10 THEN {FewPhrase(L, isNow, absolute, dir)} ELSE {})
\* ---- the CLDR category rules of the shipped locales, for non-negative integers -------------------------------
\* (independent of the locale files: a locale's own rule table is compared with these)
EnLike == {"da", "de", "en", "en_gb", "en_us", "es", "fo", "it", "nb", "nl", "nn", "sv", "tr"}
CldrPlural(name, n) ==
  LET m10 == n % 10  m100 == n % 100 IN
  CASE name \in EnLike -> IF n = 1 THEN "one" ELSE "other"
    [] name \in {"fa", "fr", "pt_br"} -> IF n \in {0, 1} THEN "one" ELSE "other"
    [] name \in {"id", "ja", "ko", "zh"} -> "other"
    [] name \in {"cs", "sk"} -> IF n = 1 THEN "one" ELSE IF n \in 2..4 THEN "few" ELSE "other"
    [] name = "he" -> IF n = 1 THEN "one" ELSE IF n = 2 THEN "two" ELSE IF m10 = 0 /\ n > 10 THEN "many" ELSE "other"
    [] name = "lt" -> IF m10 = 1 /\ m100 \notin 11..19 THEN "one" ELSE IF m10 \in 2..9 /\ m100 \notin 11..19 THEN "few" ELSE "other"
    [] name = "pl" -> IF n = 1 THEN "one" ELSE IF m10 \in 2..4 /\ m100 \notin 12..14 THEN "few" ELSE "many"
    [] name \in {"ru", "ua"} -> IF m10 = 1 /\ m100 # 11 THEN "one" ELSE IF m10 \in 2..4 /\ m100 \notin 12..14 THEN "few" ELSE "many"
    [] OTHER -> "?"
CldrOrdinal(name, n) ==
  LET m10 == n % 10  m100 == n % 100 IN
  CASE name \in {"en", "en_gb", "en_us"} -> IF m10 = 1 /\ m100 # 11 THEN "one" ELSE IF m10 = 2 /\ m100 # 12 THEN "two"
                                              ELSE IF m10 = 3 /\ m100 # 13 THEN "few" ELSE "other"
    [] name = "fr" -> IF n = 1 THEN "one" ELSE "other"
    [] name = "it" -> IF n \in {8, 11, 80, 800} THEN "many" ELSE "other"
    [] name = "sv" -> IF m10 \in {1, 2} /\ m100 \notin {11, 12} THEN "one" ELSE "other"
    [] OTHER -> "other"
\* in_words(): every non-zero unit in order, each "count unit" in the plural form of |count|, joined by sep
RECURSIVE InWordsR(_, _, _, _)
InWordsR(L, c, sep, i) ==          \* c may be negative here (signed counts are printed as they are)
  IF i > 7 THEN <<>>
  ELSE IF c[i] = 0 THEN InWordsR(L, c, sep, i + 1)
  ELSE LET rest == InWordsR(L, c, sep, i + 1) IN
       UnitPhrase(L, HUnits[i], c[i]) \o (IF rest = <<>> THEN <<>> ELSE sep \o rest)
=============================================================================
