-------------------------------- MODULE IsoForms --------------------------------
(***************************************************************************)
(* The GENERATOR side of the ISO 8601 grammar: a structured form, its text   *)
(* (RenderForm) and the value it denotes (DenoteForm).  MC_IsoText checks     *)
(* that the recogniser of IsoText inverts the generator; the C07 driver       *)
(* sends forms, and the spec renders the text itself.                         *)
(*  form = [dk, ext, y, m, d, n, wk, wd, tk, h, mi, s, fd, fsep, sep, ok, osg, oh, om] *)
(*   dk: "none" | "y" | "ym" | "cal" | "ord" | "week" | "weekd"               *)
(*   tk: "none" | "h" | "hm" | "hms";  fd: fraction digits (Seq, may be empty) *)
(*   ok: "none" | "z" | "h" | "hm" ; osg: 1 | -1                               *)
(***************************************************************************)
EXTENDS IsoText

RenderFormDate(f) ==
  LET dash == IF f.ext THEN <<cDash>> ELSE <<>> IN
  CASE f.dk = "none" -> <<>>
    [] f.dk = "y" -> Pad4(f.y)
    [] f.dk = "ym" -> Pad4(f.y) \o <<cDash>> \o Pad2(f.m)
    [] f.dk = "cal" -> Pad4(f.y) \o dash \o Pad2(f.m) \o dash \o Pad2(f.d)
    [] f.dk = "ord" -> Pad4(f.y) \o dash \o Pad3(f.n)
    [] f.dk = "week" -> Pad4(f.y) \o dash \o <<cW>> \o Pad2(f.wk)
    [] f.dk = "weekd" -> Pad4(f.y) \o dash \o <<cW>> \o Pad2(f.wk) \o dash \o D1(f.wd)
RenderFormTime(f) ==
  LET col == IF f.ext THEN <<cColon>> ELSE <<>> IN
  (CASE f.tk = "none" -> <<>>
     [] f.tk = "h" -> Pad2(f.h)
     [] f.tk = "hm" -> Pad2(f.h) \o col \o Pad2(f.mi)
     [] f.tk = "hms" -> Pad2(f.h) \o col \o Pad2(f.mi) \o col \o Pad2(f.s) \o (IF f.fd = <<>> THEN <<>> ELSE <<f.fsep>> \o f.fd))
  \o (CASE f.ok = "none" -> <<>>
        [] f.ok = "z" -> <<cZ>>
        [] f.ok = "h" -> <<IF f.osg < 0 THEN cDash ELSE cPlus>> \o Pad2(f.oh)
        [] f.ok = "hm" -> <<IF f.osg < 0 THEN cDash ELSE cPlus>> \o Pad2(f.oh) \o col \o Pad2(f.om))
RenderForm(f) == RenderFormDate(f) \o (IF f.dk # "none" /\ f.tk # "none" THEN <<f.sep>> ELSE <<>>) \o RenderFormTime(f)
FormDate(f) == CASE f.dk = "y" -> <<f.y, 1, 1>> [] f.dk = "ym" -> <<f.y, f.m, 1>> [] f.dk = "cal" -> <<f.y, f.m, f.d>>
                 [] f.dk = "ord" -> YMD(Ord(f.y, 1, 1) + f.n - 1)
                 [] f.dk = "week" -> YMD(FromIsoWeek(f.y, f.wk, 1)) [] f.dk = "weekd" -> YMD(FromIsoWeek(f.y, f.wk, f.wd))
                 [] OTHER -> NoDate
FormTime(f) == CASE f.tk = "h" -> <<f.h, 0, 0, 0>> [] f.tk = "hm" -> <<f.h, f.mi, 0, 0>>
                 [] f.tk = "hms" -> <<f.h, f.mi, f.s, IF f.fd = <<>> THEN 0 ELSE FracUs(f.fd)>> [] OTHER -> NoTime
FormOff(f) == IF f.ok \in {"h", "hm"} THEN f.osg * (f.oh * 3600 + (IF f.ok = "hm" THEN f.om ELSE 0) * 60) ELSE 0
\* the form denotes a value iff its fields are in range
FormDateValid(f) ==
  /\ (f.dk \in {"y", "ym", "cal"} => ValidYMD(f.y, IF f.dk = "y" THEN 1 ELSE f.m, IF f.dk = "cal" THEN f.d ELSE 1))
  /\ (f.dk = "ord" => f.y \in 1..9999 /\ f.n \in 1..DaysInYear(f.y))
  /\ (f.dk \in {"week", "weekd"} => f.y \in 1..9999 /\ f.wk \in 1..WeeksInIsoYear(f.y) /\ (f.dk = "week" \/ f.wd \in 1..7)
                                     /\ FromIsoWeek(f.y, f.wk, IF f.dk = "week" THEN 1 ELSE f.wd) \in 1..3652059)
FormTimeValid(f) ==
  /\ (f.tk # "none" => f.h \in 0..23 /\ f.mi \in 0..59 /\ f.s \in 0..59)
  /\ (f.ok \in {"h", "hm"} => f.oh \in 0..23 /\ f.om \in 0..59)
FormValid(f) == FormDateValid(f) /\ FormTimeValid(f)
DenoteForm(f) == IF ~FormValid(f) THEN Invalid
                 ELSE [ok |-> TRUE, kind |-> (IF f.tk = "none" THEN "date" ELSE IF f.dk = "none" THEN "time" ELSE "datetime"),
                       d |-> FormDate(f), t |-> FormTime(f), hasoff |-> f.ok # "none", off |-> FormOff(f)]
=============================================================================
