-------------------------------- MODULE IsoText --------------------------------
(***************************************************************************)
(* ISO 8601 / RFC 3339 text at the level of characters (code points):       *)
(*  - renderers (isoformat, str, to_iso8601/rfc3339/atom/w3c strings),       *)
(*  - a recogniser Recognise(text) for calendar / ordinal / week dates,      *)
(*    times, offsets and combined date-times in basic or extended format,    *)
(*    returning the value the text DENOTES, or Invalid,                      *)
(*  - the duration grammar PnYnMnDTnHnMnS / PnW with numbers of any length   *)
(*    (BigNat) and a decimal fraction on the smallest component.             *)
(* Text is Seq(Nat): TLC cannot index strings.                               *)
(***************************************************************************)
EXTENDS TimeScale, BigNat

cDash == 45   cPlus == 43  cColon == 58  cT == 84  cZ == 90  cW == 87  cSp == 32  cDot == 46  cComma == 44
cP == 80  cY == 89  cM == 77  cD == 68  cH == 72  cS == 83  cSlash == 47
D1(n) == <<48 + n>>
Pad2(n) == <<48 + ((n \div 10) % 10), 48 + (n % 10)>>
Pad3(n) == <<48 + ((n \div 100) % 10), 48 + ((n \div 10) % 10), 48 + (n % 10)>>
Pad4(n) == <<48 + ((n \div 1000) % 10), 48 + ((n \div 100) % 10), 48 + ((n \div 10) % 10), 48 + (n % 10)>>
Pad6(n) == Pad3(n \div 1000) \o Pad3(n % 1000)
AllDigits(s) == \A i \in 1..Len(s) : IsDigit(s[i])
Num(s) == IF Len(s) = 0 THEN 0 ELSE BNToInt(BNOfDigits(s))          \* short digit strings only
Sub(s, a, b) == IF a > b THEN <<>> ELSE SubSeq(s, a, b)
\* index of the first element of s that lies in set cs, or 0
RECURSIVE FirstIn(_, _, _)
FirstIn(s, cs, i) == IF i > Len(s) THEN 0 ELSE IF s[i] \in cs THEN i ELSE FirstIn(s, cs, i + 1)
Has(s, c) == FirstIn(s, {c}, 1) # 0

\* ---------------------------------------------------------------- renderers
RenderDate(w) == Pad4(w[1]) \o <<cDash>> \o Pad2(w[2]) \o <<cDash>> \o Pad2(w[3])
RenderHMS(w) == Pad2(w[4]) \o <<cColon>> \o Pad2(w[5]) \o <<cColon>> \o Pad2(w[6])
\* +HH:MM, with :SS when the offset has seconds (CPython's isoformat)
RenderOffset(off) == LET a == Abs(off) IN (IF off < 0 THEN <<cDash>> ELSE <<cPlus>>) \o Pad2(a \div 3600) \o <<cColon>>
                        \o Pad2((a % 3600) \div 60) \o (IF a % 60 # 0 THEN <<cColon>> \o Pad2(a % 60) ELSE <<>>)
\* isoformat(sep): microseconds only when non-zero, offset only when aware
IsoFormat(w, aware, off, sep) == RenderDate(w) \o <<sep>> \o RenderHMS(w)
                                  \o (IF w[7] # 0 THEN <<cDot>> \o Pad6(w[7]) ELSE <<>>)
                                  \o (IF aware THEN RenderOffset(off) ELSE <<>>)
\* to_iso8601_string(): "+00:00" becomes "Z" for the zone named UTC
Iso8601String(w, aware, off, isUtcName) == LET s == IsoFormat(w, aware, off, cT) IN
   IF isUtcName /\ aware /\ off = 0 THEN Sub(s, 1, Len(s) - 6) \o <<cZ>> ELSE s
\* ATOM / W3C: YYYY-MM-DDTHH:mm:ss+HH:MM (whole minutes of offset, no fraction)
AtomString(w, off) == LET a == Abs(off) IN RenderDate(w) \o <<cT>> \o RenderHMS(w)
                        \o (IF off < 0 THEN <<cDash>> ELSE <<cPlus>>) \o Pad2(a \div 3600) \o <<cColon>> \o Pad2((a % 3600) \div 60)

\* ---------------------------------------------------------------- recogniser
Invalid == [ok |-> FALSE]
NoDate == <<0, 0, 0>>
NoTime == <<0, 0, 0, 0>>
\* date part: calendar (YYYY, YYYY-MM, YYYY-MM-DD, YYYYMMDD), ordinal (YYYY-DDD, YYYYDDD),
\* week (YYYY-Www, YYYY-Www-D, YYYYWww, YYYYWwwD).  style: "ext" | "basic" | "any"
DateOK(y, m, d, st) == IF ValidYMD(y, m, d) THEN [ok |-> TRUE, d |-> <<y, m, d>>, style |-> st] ELSE Invalid
OrdOK(y, n, st) == IF y \in 1..9999 /\ n >= 1 /\ n <= DaysInYear(y)
                   THEN [ok |-> TRUE, d |-> YMD(Ord(y, 1, 1) + n - 1), style |-> st] ELSE Invalid
WeekOK(y, wk, wd, st) == IF y \in 1..9999 /\ wk >= 1 /\ wk <= WeeksInIsoYear(y) /\ wd \in 1..7
                             /\ FromIsoWeek(y, wk, wd) >= 1 /\ FromIsoWeek(y, wk, wd) <= 3652059
                         THEN [ok |-> TRUE, d |-> YMD(FromIsoWeek(y, wk, wd)), style |-> st] ELSE Invalid
RecDate(s) ==
  LET n == Len(s)  dg(a, b) == AllDigits(Sub(s, a, b))  num(a, b) == Num(Sub(s, a, b)) IN
  IF n < 4 \/ ~dg(1, 4) THEN Invalid
  ELSE LET y == num(1, 4) IN
  CASE n = 4 -> DateOK(y, 1, 1, "any")
    [] n = 7 /\ s[5] = cDash /\ dg(6, 7) -> DateOK(y, num(6, 7), 1, "ext")
    [] n = 7 /\ dg(5, 7) -> OrdOK(y, num(5, 7), "basic")
    [] n = 7 /\ s[5] = cW /\ dg(6, 7) -> WeekOK(y, num(6, 7), 1, "basic")
    [] n = 8 /\ dg(5, 8) -> DateOK(y, num(5, 6), num(7, 8), "basic")
    [] n = 8 /\ s[5] = cDash /\ s[6] = cW /\ dg(7, 8) -> WeekOK(y, num(7, 8), 1, "ext")
    [] n = 8 /\ s[5] = cDash /\ dg(6, 8) -> OrdOK(y, num(6, 8), "ext")
    [] n = 8 /\ s[5] = cW /\ dg(6, 8) -> WeekOK(y, num(6, 7), num(8, 8), "basic")
    [] n = 10 /\ s[5] = cDash /\ s[8] = cDash /\ dg(6, 7) /\ dg(9, 10) -> DateOK(y, num(6, 7), num(9, 10), "ext")
    [] n = 10 /\ s[5] = cDash /\ s[6] = cW /\ s[9] = cDash /\ dg(7, 8) /\ dg(10, 10) -> WeekOK(y, num(7, 8), num(10, 10), "ext")
    [] OTHER -> Invalid
\* offset: Z | +-hh | +-hh:mm | +-hhmm
RecOffset(s) ==
  LET n == Len(s) IN
  IF n = 1 /\ s[1] = cZ THEN [ok |-> TRUE, off |-> 0, z |-> TRUE]
  ELSE IF n \in {3, 5, 6} /\ s[1] \in {cPlus, cDash} /\ AllDigits(Sub(s, 2, 3))
          /\ (n = 3 \/ (n = 5 /\ AllDigits(Sub(s, 4, 5))) \/ (n = 6 /\ s[4] = cColon /\ AllDigits(Sub(s, 5, 6))))
       THEN LET hh == Num(Sub(s, 2, 3))
                mm == IF n = 3 THEN 0 ELSE IF n = 5 THEN Num(Sub(s, 4, 5)) ELSE Num(Sub(s, 5, 6))
            IN IF hh <= 23 /\ mm <= 59 THEN [ok |-> TRUE, off |-> (IF s[1] = cDash THEN -1 ELSE 1) * (hh * 3600 + mm * 60), z |-> FALSE]
               ELSE Invalid
       ELSE Invalid
\* fraction of a second: 1..9 digits, digits beyond the sixth are truncated
FracUs(f) == LET six == Sub(f \o <<48, 48, 48, 48, 48, 48>>, 1, 6) IN Num(six)
\* time part: hh | hh:mm | hh:mm:ss | hhmm | hhmmss  [ (.|,) fraction after the seconds ]  [ offset ]
RecTime(s) ==
  LET o == FirstIn(s, {cPlus, cDash, cZ}, 1)
      main == IF o = 0 THEN s ELSE Sub(s, 1, o - 1)
      offp == IF o = 0 THEN <<>> ELSE Sub(s, o, Len(s))
      fp == FirstIn(main, {cDot, cComma}, 1)
      hms == IF fp = 0 THEN main ELSE Sub(main, 1, fp - 1)
      frac == IF fp = 0 THEN <<>> ELSE Sub(main, fp + 1, Len(main))
      n == Len(hms)
      dg(a, b) == AllDigits(Sub(hms, a, b))
      shape == CASE n = 2 /\ dg(1, 2) -> "h" [] n = 5 /\ dg(1, 2) /\ hms[3] = cColon /\ dg(4, 5) -> "h:m"
                 [] n = 8 /\ dg(1, 2) /\ hms[3] = cColon /\ dg(4, 5) /\ hms[6] = cColon /\ dg(7, 8) -> "h:m:s"
                 [] n = 4 /\ dg(1, 4) -> "hm" [] n = 6 /\ dg(1, 6) -> "hms" [] OTHER -> "bad"
      h == Num(Sub(hms, 1, 2))
      mi == CASE shape \in {"h:m", "h:m:s"} -> Num(Sub(hms, 4, 5)) [] shape \in {"hm", "hms"} -> Num(Sub(hms, 3, 4)) [] OTHER -> 0
      sc == CASE shape = "h:m:s" -> Num(Sub(hms, 7, 8)) [] shape = "hms" -> Num(Sub(hms, 5, 6)) [] OTHER -> 0
      off == IF o = 0 THEN [ok |-> TRUE, off |-> 0, z |-> FALSE] ELSE RecOffset(offp)
  IN IF shape = "bad" \/ ~off.ok THEN Invalid
     ELSE IF fp # 0 /\ (shape \notin {"h:m:s", "hms"} \/ Len(frac) < 1 \/ Len(frac) > 9 \/ ~AllDigits(frac)) THEN Invalid
     ELSE IF h > 23 \/ mi > 59 \/ sc > 59 THEN Invalid
     ELSE [ok |-> TRUE, t |-> <<h, mi, sc, IF fp = 0 THEN 0 ELSE FracUs(frac)>>, hasoff |-> o # 0, off |-> off.off,
           style |-> (IF shape \in {"h:m", "h:m:s"} THEN "ext" ELSE IF shape = "h" THEN "any" ELSE "basic")]
\* a whole string: date | time (extended, or prefixed with T) | date (T|space) time
Recognise(s) ==
  LET p == FirstIn(s, {cT, cSp}, 1) IN
  IF Len(s) = 0 THEN Invalid
  ELSE IF p = 0
       THEN (IF Has(s, cColon)
             THEN LET t == RecTime(s) IN IF t.ok THEN [ok |-> TRUE, kind |-> "time", d |-> NoDate, t |-> t.t, hasoff |-> t.hasoff, off |-> t.off] ELSE Invalid
             ELSE LET d == RecDate(s) IN IF d.ok THEN [ok |-> TRUE, kind |-> "date", d |-> d.d, t |-> NoTime, hasoff |-> FALSE, off |-> 0] ELSE Invalid)
       ELSE IF p = 1
       THEN (IF s[1] = cT THEN LET t == RecTime(Sub(s, 2, Len(s))) IN
                               IF t.ok THEN [ok |-> TRUE, kind |-> "time", d |-> NoDate, t |-> t.t, hasoff |-> t.hasoff, off |-> t.off] ELSE Invalid
             ELSE Invalid)
       ELSE LET d == RecDate(Sub(s, 1, p - 1))  t == RecTime(Sub(s, p + 1, Len(s))) IN
            \* a combined form needs a complete date (not the reduced precisions YYYY / YYYY-MM)
            IF d.ok /\ t.ok /\ ~({d.style, t.style} = {"ext", "basic"}) /\ Len(Sub(s, 1, p - 1)) >= 7
               /\ ~(Len(Sub(s, 1, p - 1)) = 7 /\ s[5] = cDash)
            THEN [ok |-> TRUE, kind |-> "datetime", d |-> d.d, t |-> t.t, hasoff |-> t.hasoff, off |-> t.off] ELSE Invalid

\* ---------------------------------------------------------------- durations
\* a number token: integer digits and an optional fraction
\* RecDuration(s) -> [ok, y, mo (BigNat), t |-> Dur3 of the rest, big |-> TRUE if not representable]
Designators == {cY, cM, cD, cH, cS, cW}
\* split "123.45X..." at position i: returns [int, frac, des, next] or ok = FALSE
ScanNum(s, i) ==
  LET j == FirstIn(s, Designators \cup {cT, cDot, cComma}, i) IN
  IF j = 0 \/ j = i \/ ~AllDigits(Sub(s, i, j - 1)) THEN [ok |-> FALSE]
  ELSE IF s[j] \in {cDot, cComma}
       THEN LET k == FirstIn(s, Designators \cup {cT, cDot, cComma}, j + 1) IN
            IF k = 0 \/ k = j + 1 \/ ~AllDigits(Sub(s, j + 1, k - 1)) \/ s[k] \notin Designators THEN [ok |-> FALSE]
            ELSE [ok |-> TRUE, int |-> Sub(s, i, j - 1), frac |-> Sub(s, j + 1, k - 1), des |-> s[k], next |-> k + 1]
       ELSE IF s[j] = cT THEN [ok |-> FALSE]
       ELSE [ok |-> TRUE, int |-> Sub(s, i, j - 1), frac |-> <<>>, des |-> s[j], next |-> j + 1]
\* the components in order; rank of designator in the date part and in the time part
RankDate(c) == CASE c = cY -> 1 [] c = cM -> 2 [] c = cW -> 3 [] c = cD -> 4 [] OTHER -> 0
RankTime(c) == CASE c = cH -> 5 [] c = cM -> 6 [] c = cS -> 7 [] OTHER -> 0
RECURSIVE ScanAll(_, _, _, _, _)
\* returns [ok, cs]: cs a sequence of [int, frac, rank]
BadScan == [ok |-> FALSE, cs |-> <<>>]
ScanAll(s, i, inTime, lastRank, acc) ==
  IF i > Len(s) THEN [ok |-> TRUE, cs |-> acc]
  ELSE IF s[i] = cT THEN (IF inTime \/ i = Len(s) THEN BadScan ELSE ScanAll(s, i + 1, TRUE, Max(lastRank, 4), acc))
  ELSE LET t == ScanNum(s, i) IN
       IF ~t.ok THEN BadScan
       ELSE LET r == IF inTime THEN RankTime(t.des) ELSE RankDate(t.des) IN
            IF r = 0 \/ r <= lastRank THEN BadScan
            ELSE ScanAll(s, t.next, inTime, r, acc \o <<[int |-> t.int, frac |-> t.frac, rank |-> r]>>)
\* seconds per unit by rank (weeks, days, hours, minutes, seconds)
UnitSec(r) == CASE r = 3 -> 604800 [] r = 4 -> 86400 [] r = 5 -> 3600 [] r = 6 -> 60 [] r = 7 -> 1
\* whole seconds of an integer component as BigNat
CompSec(c) == IF c.rank = 3 THEN BNMulSmall(BNMulSmall(BNOfDigits(c.int), 7), 86400)
              ELSE BNMulSmall(BNOfDigits(c.int), UnitSec(c.rank))
\* fraction 0.f of a unit of u seconds, in microseconds: f * u * 10^6 / 10^L as <<floor, twiceRemainderCmp>>
\* L = Len(f) may be any length; result [us (BigNat), tie |-> exact half, up |-> round up]
RECURSIVE BNDivPow10(_, _)
BNDivPow10(a, e) ==      \* <<quotient, remainder-is-zero, first-dropped-digit, rest-nonzero>> dividing by 10^e
  IF e = 0 THEN [q |-> a, d |-> 0, rest |-> FALSE, any |-> FALSE]
  ELSE LET x == BNDivSmall(a, 10)
           r == BNDivPow10(x.q, e - 1)
       IN IF e = 1 THEN [q |-> x.q, d |-> x.r, rest |-> FALSE, any |-> x.r # 0]
          ELSE [q |-> r.q, d |-> r.d, rest |-> r.rest \/ x.r # 0, any |-> r.any \/ x.r # 0]
FracUsOf(c) == LET u1 == IF c.rank = 3 THEN 86400 ELSE UnitSec(c.rank)
                   u2 == IF c.rank = 3 THEN 7 ELSE 1
                   \* f * unit seconds * 10^6, every factor <= 200000
                   num == BNMulSmall(BNMulSmall(BNMulSmall(BNMulSmall(BNOfDigits(c.frac), u1), u2), 1000), 1000)
                   x == BNDivPow10(num, Len(c.frac))
               IN [q |-> x.q, tie |-> x.d = 5 /\ ~x.rest, up |-> x.d > 5 \/ (x.d = 5 /\ x.rest)]
\* a BigNat of seconds -> <<days, secs>> or "big" when days do not fit (timedelta holds < 10^9 days)
SecToDS(a) == LET x == BNDivSmall(a, 86400)  dd == BNToInt(x.q) IN
              IF dd < 0 \/ dd > 999999999 THEN [big |-> TRUE] ELSE [big |-> FALSE, ds |-> <<dd, x.r>>]
RECURSIVE SumSec(_, _)
SumSec(cs, i) == IF i > Len(cs) THEN <<>> ELSE IF cs[i].rank <= 2 THEN SumSec(cs, i + 1) ELSE BNAdd(CompSec(cs[i]), SumSec(cs, i + 1))
RecDuration(s) ==
  IF Len(s) < 2 \/ s[1] # cP THEN Invalid
  ELSE LET sc == ScanAll(s, 2, FALSE, 0, <<>>)  cs == sc.cs IN
  IF ~sc.ok \/ Len(cs) = 0 THEN Invalid
  ELSE LET n == Len(cs)
           hasW == \E i \in 1..n : cs[i].rank = 3
           fracIdx == {i \in 1..n : cs[i].frac # <<>>}
       IN \* weeks cannot be combined; a fraction only on the last (smallest) component, never on years / months
          IF (hasW /\ n > 1) \/ (\E i \in fracIdx : i # n \/ cs[i].rank <= 2) THEN Invalid
          ELSE LET yy == IF \E i \in 1..n : cs[i].rank = 1 THEN BNOfDigits((CHOOSE c \in {cs[i] : i \in 1..n} : c.rank = 1).int) ELSE <<>>
                   mm == IF \E i \in 1..n : cs[i].rank = 2 THEN BNOfDigits((CHOOSE c \in {cs[i] : i \in 1..n} : c.rank = 2).int) ELSE <<>>
                   secs == SumSec(cs, 1)
                   fr == IF fracIdx = {} THEN [q |-> <<>>, tie |-> FALSE, up |-> FALSE] ELSE FracUsOf(cs[n])
                   \* whole microseconds of the fraction: q = sq seconds + uq microseconds
                   fq1 == BNDivSmall(fr.q, 1000)
                   fq2 == BNDivSmall(fq1.q, 1000)
                   fq == [q |-> fq2.q, r |-> fq2.r * 1000 + fq1.r]            \* division by 10^6 in two steps
                   tot == SecToDS(BNAdd(secs, fq.q))
                   \* the native timedelta also carries 365 days per year and 30 per month: all of it must fit
                   allDays == BNDivSmall(BNAdd(BNAdd(secs, fq.q), BNAdd(BNMulSmall(BNMulSmall(yy, 365), 86400),
                                                                          BNMulSmall(BNMulSmall(mm, 30), 86400))), 86400).q
                   maxdig == LET RECURSIVE mx(_) mx(i) == IF i > n THEN 0 ELSE Max(Len(cs[i].int), mx(i + 1)) IN mx(1)
               IN [ok |-> TRUE, y |-> yy, mo |-> mm,
                   big |-> tot.big \/ BNToInt(yy) < 0 \/ BNToInt(mm) < 0 \/ BNToInt(allDays) < 0 \/ BNToInt(allDays) > 999999999,
                   maxdigits |-> maxdig,
                   rest |-> (IF tot.big THEN <<0, 0, 0>> ELSE D3Add(<<tot.ds[1], tot.ds[2], fq.r>>, IF fr.up THEN <<0, 0, 1>> ELSE <<0, 0, 0>>)),
                   tie |-> fr.tie, hasfrac |-> fracIdx # {}, fraclen |-> (IF fracIdx = {} THEN 0 ELSE Len(cs[n].frac)),
                   fracrank |-> (IF fracIdx = {} THEN 0 ELSE cs[n].rank), ncomp |-> n]
=============================================================================
