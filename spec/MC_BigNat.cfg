INIT Init
NEXT Next
INVARIANT Inv
CHECK_DEADLOCK FALSE
