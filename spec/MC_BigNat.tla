---- MODULE MC_BigNat ----
EXTENDS BigNat, TLC
VARIABLE n, k
Init == n \in {0, 1, 9999, 10000, 10001, 123456789, 2000000000, 99999999} /\ k \in {1, 7, 24, 60, 86400, 200000}
Next == UNCHANGED <<n, k>>
Ds(x) == IF x = 0 THEN <<48>> ELSE LET RECURSIVE f(_) f(v) == IF v = 0 THEN <<>> ELSE f(v \div 10) \o <<48 + (v % 10)>> IN f(x)
Inv == /\ BNToInt(BNOfInt(n)) = n
       /\ BNOfDigits(Ds(n)) = BNOfInt(n)
       /\ BNOfDigits(<<48, 48>> \o Ds(n)) = BNOfInt(n)
       /\ LET d == BNDivSmall(BNOfInt(n), k) IN BNToInt(d.q) = n \div k /\ d.r = n % k
       /\ (n < 10000 => BNToInt(BNMulSmall(BNOfInt(n), k)) = n * k)
       /\ BNDivSmall(BNMulSmall(BNMulSmall(BNOfInt(n), 200000), 99999), 99999).q = BNMulSmall(BNOfInt(n), 200000)
       /\ (n < 1000000000 => BNToInt(BNAdd(BNOfInt(n), BNOfInt(n))) = 2 * n)
       /\ (n < 40000 /\ k < 40000 => BNToInt(BNMul(BNOfInt(n), BNOfInt(k))) = n * k)
       /\ BNMul(BNOfInt(n), BNOfInt(k)) = BNMul(BNOfInt(k), BNOfInt(n))
       /\ BNDivSmall(BNMul(BNOfInt(n), BNOfInt(k)), k).q = BNOfInt(n)
       \* rounding shifts against plain integers: n / 2^e for e = 1, 3, 13
       /\ LET rhe(x, p) == LET q == x \div p  r == x % p IN IF 2 * r > p \/ (2 * r = p /\ q % 2 = 1) THEN q + 1 ELSE q
          IN /\ BNToInt(BNShiftRound(BNOfInt(n), 1, FALSE)) = rhe(n, 2)
             /\ BNToInt(BNShiftRound(BNOfInt(n), 3, FALSE)) = rhe(n, 8)
             /\ BNToInt(BNShiftRound(BNOfInt(n), 13, FALSE)) = rhe(n, 8192)
====
