---- MODULE MC_BigNat ----
EXTENDS BigNat, TLC
VARIABLE n, k
Init == n \in {0, 1, 9999, 10000, 10001, 123456789, 2000000000, 99999999} /\ k \in {1, 7, 24, 60, 86400, 200000}
Next == UNCHANGED <<n, k>>
Ds(x) == IF x = 0 THEN <<48>> ELSE LET RECURSIVE f(_) f(v) == IF v = 0 THEN <<>> ELSE f(v \div 10) \o <<48 + (v % 10)>> IN f(x)
Inv == /\ BNToInt(BNOfInt(n)) = n
       /\ BNOfDigits(Ds(n)) = BNOfInt(n)
       /\ BNOfDigits(<<48, 48>> \o Ds(n)) = BNOfInt(n)
       /\ LET d == BNDivSmall(BNOfInt(n), k) IN BNToInt(d.q) = n \div k /\ d.r = n % k
       /\ (n < 10000 => BNToInt(BNMulSmall(BNOfInt(n), k)) = n * k)
       /\ BNDivSmall(BNMulSmall(BNMulSmall(BNOfInt(n), 200000), 99999), 99999).q = BNMulSmall(BNOfInt(n), 200000)
       /\ (n < 1000000000 => BNToInt(BNAdd(BNOfInt(n), BNOfInt(n))) = 2 * n)
====
