INIT Init
NEXT Next
INVARIANT ClosedForm
INVARIANT IsoOk
INVARIANT LongOk
INVARIANT AlgOk
INVARIANT MonthOk
INVARIANT NthOk
CHECK_DEADLOCK FALSE
INVARIANT DriftOk
INVARIANT MonthMono
INVARIANT PosixOk
INVARIANT YearOk
