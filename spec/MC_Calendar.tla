----------------------------- MODULE MC_Calendar -----------------------------
(***************************************************************************)
(* Exhaustive check of the calendar reference over ALL dates of the years    *)
(* Y0..Y1 (the whole range 1..9999 in the thorough tier): the closed forms   *)
(* (YMD, Ord, IsoCal, ...) against the successor-day induction, and the      *)
(* implementation-shaped algorithms of AlgCalendar against the reference.    *)
(* One chain per year (initial states), so TLC's workers share the years.    *)
(***************************************************************************)
EXTENDS AlgCalendar, TLC, IOUtils

Y0 == atoi(IOEnv.PV_Y0)
Y1 == atoi(IOEnv.PV_Y1)
VARIABLES y, n, t          \* chain of year y: ordinal n and its date t by induction
vars == <<y, n, t>>
Init == y \in Y0..Y1 /\ n = Ord(y, 1, 1) /\ t = <<y, 1, 1>>
Step == t[1] = y /\ n' = n + 1 /\ t' = NextYMD(t) /\ y' = y
Next == Step

\* closed form = induction, both directions
ClosedForm == YMD(n) = t /\ Ord(t[1], t[2], t[3]) = n /\ YearOf(n) = t[1] /\ (t[1] <= 9999 => ValidYMD(t[1], t[2], t[3]))
\* ISO week date: in range, invertible, Thursday rule
IsoOk == LET c == IsoCal(n) IN /\ c[2] \in 1..WeeksInIsoYear(c[1]) /\ c[3] = Weekday(n)
                              /\ FromIsoWeek(c[1], c[2], c[3]) = n
                              /\ YearOf(n - c[3] + 4) = c[1]           \* the week's Thursday lies in the ISO year
\* long years: those starting on a Thursday, and leap years starting on a Wednesday
LongOk == IsLongYear(y) <=> (Weekday(Ord(y, 1, 1)) = 4 \/ (IsLeap(y) /\ Weekday(Ord(y, 1, 1)) = 3))
\* implementation-shaped algorithms refine the reference
AlgOk == /\ AlgWeekDay(t[1], t[2], t[3]) = Weekday(n)
         /\ AlgIsLongYear(y) = IsLongYear(y)
         /\ AlgDayOfYear(t[1], t[2], t[3]) = DayOfYear(t[1], t[2], t[3])
         /\ AlgDayNumber(t[1], t[2], t[3]) = n + 305          \* constant shift of the March-based epoch
\* month arithmetic: clamped result is a valid date in the target month
MonthOk == \A k \in {-13, -1, 1, 12, 25} : LET r == AddMonths(t[1], t[2], t[3], k) IN
              /\ r[2] \in 1..12 /\ r[3] \in 1..DaysInMonth(r[1], r[2])
              /\ r[1] * 12 + r[2] = t[1] * 12 + t[2] + k
              /\ (r[3] = t[3] \/ (r[3] < t[3] /\ r[3] = DaysInMonth(r[1], r[2])))
NthOk == LET wd == Weekday(n)  k == (t[3] - 1) \div 7 + 1 IN
            /\ NthWeekdayOfMonth(t[1], t[2], k, wd) = t[3]
            /\ (t[3] + 7 > DaysInMonth(t[1], t[2]) => LastWeekdayOfMonth(t[1], t[2], wd) = t[3])
\* why C19 asks for "each computed from the start": stepping month by month can only LOSE days to
\* clamping (never gain, never change the month reached), and loses nothing below day 29
DriftOk == \A a \in {-13, -1, 1, 2, 11} : \A b \in {-1, 1, 12} :
             LET s == AddMonths(t[1], t[2], t[3], a)
                 acc == AddMonths(s[1], s[2], s[3], b)
                 dir == AddMonths(t[1], t[2], t[3], a + b)
             IN /\ acc[1] = dir[1] /\ acc[2] = dir[2] /\ acc[3] <= dir[3]
                /\ (t[3] <= 28 => acc = dir)
\* clamped month arithmetic is weakly monotone: the next day never lands before this day
MonthMono == \A k \in {-13, -1, 1, 12, 25} :
               LET r == AddMonths(t[1], t[2], t[3], k)
                   u == NextYMD(t)
                   r2 == AddMonths(u[1], u[2], u[3], k)
               IN Ord(r[1], r[2], r[3]) <= Ord(r2[1], r2[2], r2[3])
\* the POSIX TZ rule Mm.w.d (Zones' synthetic rules) is the n-th / last weekday of the month
PosixOk == t[3] = 1 => \A w \in 1..5 : \A wd0 \in 0..6 :
             LET iso == IF wd0 = 0 THEN 7 ELSE wd0
                 k == NthWeekdayOfMonth(t[1], t[2], w, iso)
             IN NthWd(t[1], t[2], w, wd0) = n - 1 + (IF k # 0 THEN k ELSE LastWeekdayOfMonth(t[1], t[2], iso))
\* year length, day of year and quarter
YearOk == /\ DayOfYear(t[1], t[2], t[3]) \in 1..DaysInYear(t[1])
          /\ n = Ord(t[1], 1, 1) + DayOfYear(t[1], t[2], t[3]) - 1
          /\ Ord(t[1] + 1, 1, 1) - Ord(t[1], 1, 1) = DaysInYear(t[1])
          /\ LET q == Quarter(t[2]) IN q \in 1..4 /\ 3 * q - 2 <= t[2] /\ t[2] <= 3 * q
=============================================================================
