INIT Init
NEXT Next
INVARIANT RefinesExceptEq
CHECK_DEADLOCK FALSE
