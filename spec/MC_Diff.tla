-------------------------------- MODULE MC_Diff --------------------------------
(***************************************************************************)
(* Design-level analysis of precise_diff: over all ordered pairs of dates    *)
(* of a window of years (with and without a time-of-day borrow) check in     *)
(* which BRANCH of the month logic the algorithm refines the predicate       *)
(* ValidDecomposition.  The invariant states what holds: every branch except *)
(* "eq" (end month shorter than the month before it by exactly the negative  *)
(* day difference) is correct; CounterEq shows that "eq" really is wrong for *)
(* some pair (so the known-finding class is not empty and not over-broad).    *)
(***************************************************************************)
EXTENDS OpsDiff

Y0 == atoi(IOEnv.PV_Y0)
Y1 == atoi(IOEnv.PV_Y1)
First == Ord(Y0, 1, 1)
Last == Ord(Y1, 12, 31)
VARIABLES na, nb, tb      \* ordinals of start and end; tb = 1: end time-of-day earlier than start's (borrow)
vars == <<na, nb, tb>>
Init == na \in First..Last /\ nb = na /\ tb \in {0, 1}
Next == nb < Min(Last, na + 800) /\ nb' = nb + 1 /\ UNCHANGED <<na, tb>>
aw == LET t == YMD(na) IN <<t[1], t[2], t[3], 12, 30, 30, 500000>>
bw == LET t == YMD(nb) IN IF tb = 0 THEN <<t[1], t[2], t[3], 13, 0, 0, 0>> ELSE <<t[1], t[2], t[3], 11, 59, 59, 999999>>
Applicable == WallLe(aw, bw)
R0 == AlgPD(aw, bw)
RefinesExceptEq == Applicable => (R0.br # "eq" => ValidDecomposition(aw, bw, R0.c))
EqBranchSometimesValid == Applicable => (R0.br = "eq" => ~ValidDecomposition(aw, bw, R0.c))
=============================================================================
