INIT Init
NEXT Next
INVARIANT Ring
INVARIANT IntAgree
INVARIANT DivLaw
INVARIANT RheLaw
INVARIANT BreakdownLaw
INVARIANT ArgsLaw
INVARIANT TimeLaw
INVARIANT TruncLaw
CHECK_DEADLOCK FALSE
INVARIANT AlgebraLaw
INVARIANT OrderLaw
INVARIANT BreakdownOdd
