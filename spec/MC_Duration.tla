------------------------------ MODULE MC_Duration ------------------------------
(***************************************************************************)
(* Laws of the exact limb arithmetic on Dur3 that the oracles of C03, C05,  *)
(* C09, C10 and C20 rest on, checked exhaustively on a boundary grid: ring   *)
(* laws of + / - / neg, exact floor division and round-half-even division    *)
(* (quotient * divisor + remainder reconstructs the dividend), canonical     *)
(* breakdown (ranges, common sign, exact sum), modular time-of-day laws, and  *)
(* agreement with plain integer microsecond arithmetic where that fits.      *)
(***************************************************************************)
EXTENDS OpsDuration, TLC

Days == {-400, -1, 0, 1, 7, 400}
Secs == {0, 59, 3600, 86399}
Uss == {0, 1, 500000, 999999}
Vals == {<<d, s, u>> : d \in Days, s \in Secs, u \in Uss}
Ns == {-1000, -7, -2, -1, 1, 2, 3, 8, 1000, 2000}
VARIABLES a, b, n
vars == <<a, b, n>>
Init == a \in Vals /\ b \in Vals /\ n \in Ns
Next == UNCHANGED vars

Ring == /\ D3Add(a, b) = D3Add(b, a)
        /\ D3Sub(D3Add(a, b), b) = a
        /\ D3Neg(D3Neg(a)) = a
        /\ D3Add(a, D3Neg(a)) = D3Zero
        /\ D3Abs(a) = D3Abs(D3Neg(a)) /\ D3Sign(D3Abs(a)) >= 0
        /\ (D3Lt(a, b) <=> D3Sign(D3Sub(b, a)) = 1)
\* small values: agreement with integer microseconds
Small(x) == FitsUs(x)
IntAgree == (Small(a) /\ Small(b) /\ Small(D3Add(a, b))) =>
              /\ UsOf(D3Add(a, b)) = UsOf(a) + UsOf(b)
              /\ UsOf(D3Neg(a)) = -UsOf(a)
              /\ UsToD3(UsOf(a)) = a
\* division: quotient * divisor + remainder = dividend, remainder in range; RHE within half a unit, ties to even
Pos == IF n > 0 THEN n ELSE -n
DivLaw == LET x == D3DivMod(a, Pos) IN
             /\ x.r \in 0..(Pos - 1)
             /\ D3Add(D3MulInt(x.q, Pos), <<0, 0, x.r>>) = a
             /\ D3FloorDivInt(a, Pos) = x.q
RheLaw == LET q == D3DivRHE(a, n)
              err == D3Abs(D3Sub(a, D3MulInt(q, n)))        \* |a - q n| in microseconds (< n)
          IN /\ err[1] = 0 /\ err[2] = 0 /\ 2 * err[3] <= Pos
             /\ (2 * err[3] = Pos => q[3] % 2 = 0)
BreakdownLaw == LET c == Breakdown(a)  m == IF a[1] < 0 THEN -1 ELSE 1 IN
   /\ \A i \in 1..6 : c[i] * m >= 0
   /\ Abs(c[2]) < 7 /\ Abs(c[3]) < 24 /\ Abs(c[4]) < 60 /\ Abs(c[5]) < 60 /\ Abs(c[6]) < 1000000
   /\ D3Of(7 * c[1] + c[2], c[3], c[4], c[5], c[6]) = a
ArgsLaw == D3OfArgs([y |-> 0, mo |-> 0, w |-> 0, d |-> a[1], h |-> 0, mi |-> 0, s |-> a[2], ms |-> 0, us |-> a[3]]) = a
           /\ D3OfArgs([y |-> 1, mo |-> -1, w |-> 2, d |-> 0, h |-> n, mi |-> n, s |-> n, ms |-> n, us |-> n])
              = D3Add(D3Of(365 - 30 + 14, n, n, n, n), D3Norm(0, 0, 1000 * n))
TimeLaw == LET t == TimeOfD3(<<0, a[2], a[3]>>) IN
   /\ TimeAdd(TimeAdd(t, b), D3Neg(b)) = t
   /\ TimeAdd(t, <<1, 0, 0>>) = t /\ TimeAdd(t, <<-3, 0, 0>>) = t
   /\ TimeD3(t) = <<0, a[2], a[3]>>
   /\ TimeDiff(t, TimeAdd(t, <<0, b[2], b[3]>>)) \in {<<0, b[2], b[3]>>, D3Sub(<<0, b[2], b[3]>>, <<1, 0, 0>>)}
TruncLaw == LET ts == TruncSec(a) IN ts[1] \in {-1, 0, 1} /\ ts[2][2] \in 0..86399 /\ (ts[1] = 0 <=> (D3Abs(a)[1] = 0 /\ D3Abs(a)[2] = 0))
\* more algebra: associativity, multiplication distributes over + and agrees with repeated addition
AlgebraLaw == /\ D3Add(D3Add(a, b), a) = D3Add(a, D3Add(b, a))
              /\ D3MulInt(a, -1) = D3Neg(a) /\ D3MulInt(a, 2) = D3Add(a, a) /\ D3MulInt(a, 1) = a
              /\ D3MulInt(D3Add(a, b), n) = D3Add(D3MulInt(a, n), D3MulInt(b, n))
              /\ D3MulInt(D3Neg(a), n) = D3Neg(D3MulInt(a, n))
\* the order is total (trichotomy) and invariant under translation
OrderLaw == /\ ((IF D3Lt(a, b) THEN 1 ELSE 0) + (IF a = b THEN 1 ELSE 0) + (IF D3Lt(b, a) THEN 1 ELSE 0) = 1)
            /\ (D3Lt(a, b) <=> D3Lt(D3Add(a, <<n, 59, 999999>>), D3Add(b, <<n, 59, 999999>>)))
            /\ (D3Lt(a, b) <=> D3Lt(D3Neg(b), D3Neg(a)))
\* the canonical breakdown is odd: the components of -a are the negated components of a
\* (truncation towards zero, not floor, on every level)
BreakdownOdd == LET c == Breakdown(a)  d == Breakdown(D3Neg(a)) IN \A i \in 1..6 : d[i] = -c[i]
=============================================================================
