INIT Init
NEXT Next
INVARIANT Agreement
INVARIANT RoundTrip
CHECK_DEADLOCK FALSE
