-------------------------------- MODULE MC_IsoText --------------------------------
(***************************************************************************)
(* Generator / recogniser agreement for the ISO 8601 date-time grammar: for   *)
(* every form over boundary field values (valid AND impossible dates, weeks,  *)
(* ordinals), Recognise(RenderForm(f)) = DenoteForm(f).  Also the renderers:  *)
(* Recognise inverts IsoFormat / Iso8601String / AtomString.                  *)
(***************************************************************************)
EXTENDS IsoForms, TLC

Years == {1, 1583, 1999, 2000, 2004, 2015, 2020, 9999}
VARIABLES f
Base == [dk |-> "none", ext |-> TRUE, y |-> 2000, m |-> 1, d |-> 1, n |-> 1, wk |-> 1, wd |-> 1, tk |-> "none", h |-> 0,
         mi |-> 0, s |-> 0, fd |-> <<>>, fsep |-> cDot, sep |-> cT, ok |-> "none", osg |-> 1, oh |-> 0, om |-> 0]
DateForms == {[Base EXCEPT !.dk = "cal", !.ext = e, !.y = y, !.m = m, !.d = d] : e \in BOOLEAN, y \in Years, m \in {1, 2, 12, 13}, d \in {1, 28, 29, 30, 31, 32}}
             \cup {[Base EXCEPT !.dk = "ord", !.ext = e, !.y = y, !.n = n] : e \in BOOLEAN, y \in Years, n \in {0, 1, 59, 60, 365, 366, 367}}
             \cup {[Base EXCEPT !.dk = dk, !.ext = e, !.y = y, !.wk = w, !.wd = wd] : dk \in {"week", "weekd"}, e \in BOOLEAN, y \in Years, w \in {0, 1, 52, 53, 54}, wd \in {0, 1, 7, 8}}
             \cup {[Base EXCEPT !.dk = dk, !.y = y, !.m = m] : dk \in {"y", "ym"}, y \in Years, m \in {1, 12, 13}}
TimeParts == {[tk |-> "h", h |-> 23, mi |-> 0, s |-> 0, fd |-> <<>>], [tk |-> "hm", h |-> 0, mi |-> 59, s |-> 0, fd |-> <<>>],
              [tk |-> "hms", h |-> 12, mi |-> 30, s |-> 59, fd |-> <<>>], [tk |-> "hms", h |-> 24, mi |-> 0, s |-> 0, fd |-> <<>>],
              [tk |-> "hms", h |-> 1, mi |-> 60, s |-> 0, fd |-> <<>>], [tk |-> "hms", h |-> 1, mi |-> 2, s |-> 60, fd |-> <<>>],
              [tk |-> "hms", h |-> 1, mi |-> 2, s |-> 3, fd |-> <<53>>], [tk |-> "hms", h |-> 1, mi |-> 2, s |-> 3, fd |-> <<48, 48, 48, 48, 48, 49>>],
              [tk |-> "hms", h |-> 1, mi |-> 2, s |-> 3, fd |-> <<57, 57, 57, 57, 57, 57, 57, 57, 57>>]}
Offs == {[ok |-> "none", osg |-> 1, oh |-> 0, om |-> 0], [ok |-> "z", osg |-> 1, oh |-> 0, om |-> 0], [ok |-> "h", osg |-> -1, oh |-> 23, om |-> 0],
         [ok |-> "hm", osg |-> 1, oh |-> 5, om |-> 30], [ok |-> "hm", osg |-> -1, oh |-> 0, om |-> 59], [ok |-> "hm", osg |-> 1, oh |-> 24, om |-> 0],
         [ok |-> "hm", osg |-> 1, oh |-> 1, om |-> 60]}
WithTime(b, t, o, e, sp, fs) == [b EXCEPT !.tk = t.tk, !.h = t.h, !.mi = t.mi, !.s = t.s, !.fd = t.fd, !.ok = o.ok, !.osg = o.osg,
                                          !.oh = o.oh, !.om = o.om, !.ext = e, !.sep = sp, !.fsep = fs]
Forms == DateForms
         \cup {WithTime([Base EXCEPT !.dk = "cal", !.y = 2016, !.m = 2, !.d = 29], t, o, e, sp, fs) :
                 t \in TimeParts, o \in Offs, e \in BOOLEAN, sp \in {cT, cSp}, fs \in {cDot, cComma}}
         \cup {WithTime([Base EXCEPT !.dk = dk, !.y = 2015, !.wk = 53, !.wd = 4, !.n = 365], t, o, e, cT, cDot) :
                 dk \in {"ord", "weekd", "week"}, t \in TimeParts, o \in Offs, e \in BOOLEAN}
         \cup {WithTime(Base, t, o, TRUE, cT, cDot) : t \in {x \in TimeParts : x.tk # "h"}, o \in Offs}      \* time only, extended
Init == f \in Forms
Next == UNCHANGED f
\* a combined basic date with an "hm"-offset needs no colon in basic style; RenderForm follows f.ext for both
Agreement == Recognise(RenderForm(f)) = DenoteForm(f)
\* renderers are inverted by the recogniser (on valid forms of full date-times)
RoundTrip == (DenoteForm(f).ok /\ f.dk = "cal" /\ f.tk = "hms" /\ f.ext) =>
   LET v == DenoteForm(f)
       w == <<v.d[1], v.d[2], v.d[3], v.t[1], v.t[2], v.t[3], v.t[4]>>
       r1 == Recognise(IsoFormat(w, v.hasoff, v.off, cT))
       r2 == Recognise(IsoFormat(w, v.hasoff, v.off, cSp))
       r3 == Recognise(Iso8601String(w, v.hasoff, v.off, TRUE))
       r4 == Recognise(AtomString(w, v.off))
   IN /\ r1.ok /\ r1.d = v.d /\ r1.t = v.t /\ r1.off = v.off /\ r1.hasoff = v.hasoff
      /\ r2 = r1 /\ r3.ok /\ r3.d = v.d /\ r3.t = v.t /\ r3.off = v.off
      /\ r4.ok /\ r4.d = v.d /\ r4.t = <<v.t[1], v.t[2], v.t[3], 0>> /\ r4.off = v.off
=============================================================================
