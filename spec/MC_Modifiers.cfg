INIT Init
NEXT Next
INVARIANT Delimits
INVARIANT Idempotent
INVARIANT Neighbours
CHECK_DEADLOCK FALSE
