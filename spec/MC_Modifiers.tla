------------------------------ MODULE MC_Modifiers ------------------------------
(***************************************************************************)
(* The reference StartOfRef / EndOfRef (first / last instant of the unit)   *)
(* satisfies the predicate of property C12 on every synthetic zone geometry *)
(* (gap at midnight, overlap ending at midnight, overlap starting at         *)
(* midnight, 30-minute DST, day skip, seconds LMT, footer rules), for every  *)
(* unit and the 7 consistent week configurations.                            *)
(***************************************************************************)
EXTENDS OpsModifiers

ZN == DOMAIN ZT \ {"Verif/BackToBack"}
TrsOf(zn) == LET z == ZT[zn] IN
   {[at |-> z.trs[k].at, a |-> PrevOff(z, k), b |-> z.trs[k].off] : k \in 1..Min(Len(z.trs), 4)}
Deltas(g) == {-86400 - 5, -g - 1, -g, -1, 0, 1, g \div 2, g - 1, g, g + 1, 3600, 86400 + 7, 40 * 86400}
Probes(zn) == UNION {{DSAdd(t.at, d) : d \in Deltas(Max(Abs(t.b - t.a), 1800))} : t \in TrsOf(zn)}
              \cup {<<730000, 43200>>}

VARIABLES zn, i, u, ws
vars == <<zn, i, u, ws>>
Init == /\ zn \in ZN /\ i \in Probes(zn) /\ u \in Units /\ ws \in (IF u = "week" THEN 0..6 ELSE {0})
Next == UNCHANGED vars
cfg == [ws |-> ws, we |-> (ws + 6) % 7]
zr == [n |-> zn, fo |-> 0]
x == FromInst(zr, <<i[1], i[2], 500000>>)
S == StartOfRef(x, u, cfg)
E == EndOfRef(x, u, cfg)
OneUs == <<0, 0, 1>>
InOverlap(v) == ClassOf(v) = "repeated"

Delimits == /\ SameUnit(u, S.w, x.w, cfg) /\ SameUnit(u, E.w, x.w, cfg)
            /\ I3Le(InstOf(S), InstOf(x)) /\ I3Le(InstOf(x), InstOf(E))
            /\ S.z = x.z /\ E.z = x.z
            /\ RoundTrips(S) /\ RoundTrips(E)
Idempotent == StartOfRef(S, u, cfg) = S /\ EndOfRef(E, u, cfg) = E
\* the microsecond before the start and after the end fall in a different unit (for the sub-day units
\* not inside an overlap, where one clock reading names two different hours)
Neighbours == (SubDay(u) /\ (InOverlap(x) \/ InOverlap(S) \/ InOverlap(E))) \/
              (/\ ~SameUnit(u, FromInst(zr, I3Diff(InstOf(S), OneUs)).w, x.w, cfg)
               /\ ~SameUnit(u, FromInst(zr, I3AddDur(InstOf(E), OneUs)).w, x.w, cfg))
=============================================================================
