SPECIFICATION Spec
INVARIANT NoDrift
INVARIANT Inside
INVARIANT Bounded
PROPERTY Monotone
PROPERTY Termination
CHECK_DEADLOCK FALSE
