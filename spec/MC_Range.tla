-------------------------------- MODULE MC_Range --------------------------------
(***************************************************************************)
(* The iteration of Interval.range() as a state machine shaped like the      *)
(* implementation's generator loop (i += amount; value = start.add(unit=i)), *)
(* one step per yielded value, explored by TLC for small intervals on the     *)
(* synthetic zones: starts on days 29-31 with month/year steps, DST days,     *)
(* inverted and absolute intervals.  Invariants: every yielded value is the   *)
(* closed form Kth (no drift), lies inside the interval; steps are strictly   *)
(* monotone in the direction of the interval; the loop terminates (liveness   *)
(* under weak fairness, no state constraint).                                 *)
(***************************************************************************)
EXTENDS OpsRange

\* Verif/DaySkip is left out on purpose: TLC shows that across a wholly skipped calendar day the
\* documented calendar arithmetic (C04: land in the gap, move forward by its length) is itself not
\* monotone (2002-01-02 minus 2 days -> the skipped 2001-12-31 -> normalised to 2002-01-02 00:40, later
\* than 2002-01-02 minus 1 day), so no implementation can satisfy C04 and strict monotonicity there;
\* conformance checks do not judge monotonicity for ranges that cross such a day.
ZNames == {"Verif/GapOverlap", "Verif/MidnightGap", "Verif/HalfHour"}
Starts == {<<2001, 1, 31, 12, 0, 0, 0>>, <<2001, 3, 24, 2, 30, 0, 5>>, <<2001, 10, 13, 0, 30, 0, 0>>,
           <<2001, 12, 29, 23, 59, 59, 999999>>, <<2000, 2, 29, 0, 0, 0, 0>>}
Spans == {[unit |-> "months", m |-> 5], [unit |-> "days", m |-> 4], [unit |-> "hours", m |-> 30],
          [unit |-> "years", m |-> 3], [unit |-> "weeks", m |-> 2], [unit |-> "minutes", m |-> 100]}
VARIABLES zn, a, b, abs, unit, n, i, cur, yielded, pc
vars == <<zn, a, b, abs, unit, n, i, cur, yielded, pc>>
Mk(z, w) == Construct([n |-> z, fo |-> 0], w, 1)
Init == /\ zn \in ZNames /\ abs \in BOOLEAN /\ n \in {1, 2, 5}
        /\ \E w \in Starts, sp \in Spans, rev \in BOOLEAN :
              LET s == Mk(zn, w)  e == Shift(s, sp.unit, sp.m) IN
              /\ a = (IF rev THEN e ELSE s) /\ b = (IF rev THEN s ELSE e) /\ unit = sp.unit
        /\ i = n /\ cur = IvStart(a, b, abs) /\ yielded = 0 /\ pc = "loop"
\* while op(start, end): yield start; start = self.start.add/subtract(unit=i); i += amount
Yield == /\ pc = "loop" /\ NotBeyond(a, b, abs, cur)
         /\ yielded' = yielded + 1
         /\ cur' = Shift(IvStart(a, b, abs), unit, IvDir(a, b, abs) * i)
         /\ i' = i + n
         /\ UNCHANGED <<zn, a, b, abs, unit, n, pc>>
Stop == /\ pc = "loop" /\ ~NotBeyond(a, b, abs, cur) /\ pc' = "done"
        /\ UNCHANGED <<zn, a, b, abs, unit, n, i, cur, yielded>>
Next == Yield \/ Stop
Spec == Init /\ [][Next]_vars /\ WF_vars(Next)

\* equality up to the (here irrelevant) fold attribute of an unambiguous wall time
SamePt(x, y) == x.z = y.z /\ x.w = y.w /\ PointOf(x) = PointOf(y)
NoDrift == pc = "loop" => SamePt(cur, Kth(a, b, abs, unit, n, yielded))
Inside == (pc = "loop" /\ NotBeyond(a, b, abs, cur)) =>
             /\ Between(a, b, cur)
             /\ (IvDir(a, b, abs) = 1 => Contains(a, b, abs, cur))
Monotone == [][Yield => (IF IvDir(a, b, abs) = 1 THEN PLt(cur, cur') ELSE PLt(cur', cur))]_vars
Bounded == yielded <= 200
Termination == <>(pc = "done")
=============================================================================
