CONSTANTS
  Regs <- MCRegs
  ZoneRefs <- MCZoneRefs
  Walls <- MCWalls
  Deltas <- MCDeltas
  CalShifts <- MCCalShifts
  ModUnits <- MCModUnits
  WeekStarts <- MCWeekStarts
  Overrides <- MCOverrides
  Weekdays <- MCWeekdays
SPECIFICATION Spec
CONSTRAINT Depth
VIEW View
INVARIANT AllWellFormed
INVARIANT PathIndependent
INVARIANT AddSubInverse
INVARIANT ModifiersOk
INVARIANT HistoryIndependent
INVARIANT NavOk
PROPERTY ConvPreserves
PROPERTY SetKeeps
PROPERTY CopyStutters
CHECK_DEADLOCK FALSE
