CONSTANTS
  Regs <- MCRegs
  ZoneRefs <- MCZoneRefs
  Walls <- MCWalls
  Deltas <- MCDeltas
  CalShifts <- MCCalShifts
  ModUnits <- MCModUnits
  WeekStarts <- MCWeekStarts
  Overrides <- MCOverrides
  Weekdays <- MCWeekdays
  RangeSteps <- MCRangeSteps
SPECIFICATION Spec
CONSTRAINT Depth
VIEW View
INVARIANT AllWellFormed
INVARIANT PathIndependent
INVARIANT AddSubInverse
INVARIANT ModifiersOk
INVARIANT HistoryIndependent
INVARIANT NavOk
INVARIANT ElapsedConsistent
PROPERTY ConvPreserves
PROPERTY SetKeeps
PROPERTY AddMovesBy
PROPERTY CopyStutters
CHECK_DEADLOCK FALSE
