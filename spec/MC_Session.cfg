CONSTANTS
  Regs <- MCRegs
  ZoneRefs <- MCZoneRefs
  Walls <- MCWalls
  Deltas <- MCDeltas
  CalShifts <- MCCalShifts
  ModUnits <- MCModUnits
  WeekStarts <- MCWeekStarts
SPECIFICATION Spec
CONSTRAINT Depth
VIEW View
INVARIANT AllWellFormed
INVARIANT PathIndependent
INVARIANT AddSubInverse
INVARIANT ModifiersOk
INVARIANT HistoryIndependent
PROPERTY ConvPreserves
PROPERTY CopyStutters
CHECK_DEADLOCK FALSE
