------------------------------ MODULE MC_Session ------------------------------
EXTENDS Session, TLC
\* small constants: two registers, four synthetic zones + UTC + a fixed offset, wall readings on and around
\* the anomalies of those zones
MCRegs == {"a", "b"}
MCZoneRefs == {[n |-> "UTC", fo |-> 0], [n |-> "Verif/GapOverlap", fo |-> 0], [n |-> "Verif/MidnightGap", fo |-> 0],
               [n |-> "Verif/MidnightOverlap", fo |-> 0], [n |-> "", fo |-> 19800]}
MCWalls == {<<2001, 3, 25, 2, 30, 0, 0>>,      \* inside GapOverlap's gap
            <<2001, 10, 28, 2, 30, 0, 5>>,     \* inside GapOverlap's overlap
            <<2001, 10, 14, 0, 0, 0, 0>>,      \* MidnightGap's skipped midnight
            <<2001, 10, 28, 0, 30, 0, 0>>}     \* MidnightOverlap's repeated first hour
MCDeltas == {<<-1, 0, 0, 0>>, <<24, 0, 0, 0>>}
MCCalShifts == {[y |-> 0, mo |-> 0, w |-> 0, d |-> 1, h |-> 0, mi |-> 0, s |-> 0, us |-> 0],
                [y |-> 0, mo |-> -1, w |-> 0, d |-> 0, h |-> 0, mi |-> 0, s |-> 0, us |-> 0]}
MCWeekStarts == {0, 6}
\* set(hour=2, minute=30): into GapOverlap's gap / overlap on the right days; set(day=14): onto MidnightGap's skipped midnight
MCOverrides == {<<-1, -1, -1, 2, 30, -1, -1>>, <<-1, 10, 14, 0, 0, 0, 0>>}
MCWeekdays == {0, 6}
MCRangeSteps == {<<"hours", 1>>, <<"days", 1>>, <<"months", 1>>}
SimWeekdays == 0..6
SimWeekStarts == 0..6
MCModUnits == {"hour", "day", "week"}
Depth == TLCGet("level") <= atoi(IOEnv.PV_DEPTH)
\* the observation variable is hidden from the state identity in the exhaustive run
View == <<regs, cfg>>
\* one line per visited state for the replayer (simulation mode)
Emit == PrintT(<<"STEP", TLCGet("level"), ToJson([last |-> last, regs |-> regs, cfg |-> cfg])>>)
=============================================================================
