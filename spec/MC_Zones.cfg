INIT Init
NEXT Next
INVARIANT RT
INVARIANT CL
INVARIANT OC
INVARIANT NV
INVARIANT NVb
CHECK_DEADLOCK FALSE
