------------------------------ MODULE MC_Zones ------------------------------
(***************************************************************************)
(* Model check of the zone semantics itself on the synthetic model zones    *)
(* (every transition geometry: 1 h gap/overlap, gap at midnight, overlap    *)
(* ending at midnight, 30 min DST, 24 h 40 min skip, seconds-granularity    *)
(* LMT, back-to-back transitions, negative DST, footer rule era in both     *)
(* hemispheres, no transitions).  Two independent formulations must agree:  *)
(* the zoneinfo-faithful algorithmic one (Render, Pep, FoldUtc, Classify)    *)
(* and the declarative one (Occ = set of instants whose rendering is w).     *)
(***************************************************************************)
EXTENDS Values

ZN == DOMAIN ZT
\* transitions to probe: the first 6 explicit ones and the rule era of three far years
TrsOf(zn) == LET z == ZT[zn] IN
   {[at |-> z.trs[k].at, a |-> PrevOff(z, k), b |-> z.trs[k].off] : k \in 1..Min(Len(z.trs), 6)}
   \cup (IF z.rule.has = 1
         THEN UNION {LET e == EZ(z, y) IN {[at |-> e.trs[k].at, a |-> PrevOff(e, k), b |-> e.trs[k].off] : k \in 3..4}
                     : y \in {z.ly + 1, 5000, 9990}}
         ELSE {})
Deltas(g) == {-g - 1, -g, -1, 0, 1, g - 1, g, g + 1, g \div 2}
Probes(zn) == UNION {{DSAdd(t.at, d) : d \in Deltas(Max(Abs(t.b - t.a), 1800))} : t \in TrsOf(zn)}
              \cup {<<730000, 43200>>}
WallProbes(zn) == UNION {{DSAdd(t.at, d + o) : d \in Deltas(Max(Abs(t.b - t.a), 1800)), o \in {t.a, t.b}} : t \in TrsOf(zn)}

\* one probe per state: kind "utc" (x is an instant) or "wall" (x is a wall reading)
VARIABLES zn, kind, x
vars == <<zn, kind, x>>
Init == /\ zn \in ZN /\ kind \in {"utc", "wall"}
        /\ x \in (IF kind = "utc" THEN Probes(zn) ELSE WallProbes(zn))
Next == UNCHANGED vars
i == x
w == x
z == ZT[zn]
Regular == zn # "Verif/BackToBack"

\* RT: the rendering of an instant resolves back to that instant, and is a well-formed wall time
RT == kind = "utc" => LET r == Render(z, i) IN /\ Resolve(z, r.w, r.f) = i
                              /\ Pep(z, r.w, r.f) = r.off
                              /\ (Regular => Classify(z, r.w) # "skipped")
                              /\ (Regular => (r.f = 1 => Classify(z, r.w) = "repeated"))
\* CL: PEP 495 classification = number of instants that render to w
\* (not in the back-to-back geometry: there zoneinfo's two-list bisection itself reports an existing
\*  wall time as skipped - e.g. 13:30 on the day of Verif/BackToBack's two transitions; conformance
\*  always uses the zoneinfo-faithful form, the declarative one is what gets restricted)
CL == (kind = "wall" /\ Regular) => ClassDecl(z, w) = Classify(z, w)
\* OC: for a repeated wall time the two folds select the two occurrences, fold 0 the earlier
OCrep == Classify(z, w) = "repeated" =>
           /\ Occ(z, w) = {Resolve(z, w, 0), Resolve(z, w, 1)}
           /\ DSLt(Resolve(z, w, 0), Resolve(z, w, 1))
           /\ Render(z, Resolve(z, w, 0)).f = 0
           /\ Render(z, Resolve(z, w, 1)).f = 1
OCuni == Classify(z, w) = "unique" =>
           /\ Occ(z, w) = {Resolve(z, w, 0)}
           /\ Resolve(z, w, 0) = Resolve(z, w, 1)
           /\ Render(z, Resolve(z, w, 0)).w = w
OC == (kind = "wall" /\ Regular) => (OCrep /\ OCuni)
\* NV: the documented normalisation always yields an existing wall time that survives a UTC
\* round trip with identical fields and offset (possible exception: the shift lands in ANOTHER
\* anomaly of a back-to-back geometry; those states are counted by NVexcept, not hidden)
NVok(f) == LET n == Normalize(z, w, f)  c == Classify(z, n.w) IN
             /\ c # "skipped"
             /\ LET inst == DSAdd(n.w, -Pep(z, n.w, f)) IN Render(z, inst).w = n.w
             /\ (Classify(z, w) = "skipped" => IF f = 1 THEN DSLt(w, n.w) ELSE DSLt(n.w, w))
             /\ (Classify(z, w) # "skipped" => n.w = w)
NV == (kind = "wall" /\ Regular) => NVok(0) /\ NVok(1)
\* in the back-to-back geometry Normalize must at least never return a skipped time
NVb == (kind = "wall" /\ ~Regular) => \A f \in {0, 1} : LET n == Normalize(z, w, f) IN
          Classify(z, w) # "skipped" => n.w = w
=============================================================================
