------------------------------- MODULE OpsArith -------------------------------
(***************************************************************************)
(* C04: calendar-unit arithmetic on the wall clock with end-of-month        *)
(* clamping.  c = [y, mo, w, d, h, mi, s, us] (any signs).                   *)
(***************************************************************************)
EXTENDS OpsTz

NegC(c) == [y |-> -c.y, mo |-> -c.mo, w |-> -c.w, d |-> -c.d, h |-> -c.h, mi |-> -c.mi, s |-> -c.s, us |-> -c.us]
HasCal(c) == c.y # 0 \/ c.mo # 0 \/ c.w # 0 \/ c.d # 0
\* first years and months (day clamped to the target month), then weeks, days and time units,
\* all on the calendar / wall clock
ShiftedYM(w, c) == AddMonths(w[1], w[2], w[3], 12 * c.y + c.mo)
AddCalWall(w, c) == LET ym == ShiftedYM(w, c)
                        base == <<Ord(ym[1], ym[2], ym[3]), w[4] * 3600 + w[5] * 60 + w[6], w[7]>>
                    IN WallOf(I3AddDur(base, D3Of(7 * c.w + c.d, c.h, c.mi, c.s, c.us)))
\* the zone is kept; the result is normalised by the construction rules with the default fold
AddCal(v, c) == Construct(v.z, AddCalWall(v.w, c), 1)
\* add(): calendar semantics as soon as a calendar unit is present, else exact elapsed time (C03)
Add(v, c) == IF HasCal(c) THEN AddCal(v, c) ELSE AddFixed(v, D3Of(0, c.h, c.mi, c.s, c.us))
\* representable without touching the ends of the range (soundness rule 3)
CalInRange(w, c) == LET ym == ShiftedYM(w, c)
                    IN ym[1] \in 2..9999 /\ LET n == Ord(ym[1], ym[2], ym[3]) + 7 * c.w + c.d IN n > 800 /\ n < 3652055

\* Date
AddCalDate(w, c) == LET ym == ShiftedYM(<<w[1], w[2], w[3]>>, c) IN YMD(Ord(ym[1], ym[2], ym[3]) + 7 * c.w + c.d)
=============================================================================
