----------------------------- MODULE OpsCalendar -----------------------------
(***************************************************************************)
(* C15: calendar primitives and getters.  Events carry whole-year arrays    *)
(* (one entry per day of the year) so that every date can be judged.         *)
(***************************************************************************)
EXTENDS Calendar, TimeScale

B01(b) == IF b THEN 1 ELSE 0
\* expected values for day k (1-based) of year y
DateOfDay(y, k) == YMD(Ord(y, 1, 1) + k - 1)
ExpIsoWeekday(y, k) == Weekday(Ord(y, 1, 1) + k - 1)
ExpDayOfWeek(y, k) == Weekday(Ord(y, 1, 1) + k - 1) - 1          \* WeekDay enum: Monday = 0
ExpDayOfYear(y, k) == k
ExpWeekOfYear(y, k) == IsoCal(Ord(y, 1, 1) + k - 1)[2]
\* row (1-based) of the date in the Monday-first month calendar
ExpWeekOfMonth(y, k) == LET t == DateOfDay(y, k) IN (t[3] + Weekday(Ord(y, t[2], 1)) + 5) \div 7
ExpDaysInMonth(y, k) == LET t == DateOfDay(y, k) IN DaysInMonth(y, t[2])
ExpQuarter(y, k) == Quarter(DateOfDay(y, k)[2])

\* first index at which a logged array differs from the expected function, 0 if none
FirstDiff(arr, n, F(_)) == LET bad == {k \in 1..n : k > Len(arr) \/ arr[k] # F(k)}
                           IN IF Len(arr) # n THEN (IF bad = {} THEN n + 1 ELSE CHOOSE k \in bad : \A j \in bad : k <= j)
                              ELSE IF bad = {} THEN 0 ELSE CHOOSE k \in bad : \A j \in bad : k <= j

\* local_time(unix, offset): broken-down time of instant i (DS, UTC) at offset off
LocalTime(i, off, us) == WallOf(<<DSAdd(i, off)[1], DSAdd(i, off)[2], us>>)
=============================================================================
