-------------------------------- MODULE OpsDiff --------------------------------
(***************************************************************************)
(* C05: the length of an interval is the exact elapsed time.                *)
(* C06: the calendar components of an interval are canonical and rebuild    *)
(*      the end from the start (a predicate oracle: decompositions are not  *)
(*      unique, what is required is ranges + AddCal(start, comps) = end).    *)
(* AlgPreciseDiff transcribes the day-borrow / month branch of              *)
(* _helpers.precise_diff (and rust/src/python/helpers.rs): it yields the    *)
(* BRANCH LABEL used to classify events, and MC_Diff checks in which        *)
(* branches the algorithm refines the predicate.                            *)
(***************************************************************************)
EXTENDS OpsArith

\* ---- C05 ---------------------------------------------------------------------------
IsDate(v) == v.k = "date"
DayI3(v) == <<Ord(v.w[1], v.w[2], v.w[3]), 0, 0>>
PointOf(v) == IF IsDate(v) THEN DayI3(v) ELSE InstOf(DT(v.z, v.w, v.f))
Elapsed(a, b) == I3Diff(PointOf(b), PointOf(a))                \* Dur3, exact
\* magnitude of a Dur3 in whole seconds / minutes as <<days, rest>>, hours as one integer
MagSec(d) == LET m == D3Abs(d) IN <<m[1], m[2]>>
MagMin(d) == LET m == D3Abs(d) IN <<m[1], m[2] \div 60>>
MagHour(d) == LET m == D3Abs(d) IN m[1] * 24 + m[2] \div 3600
\* exact below 2^33 s (99420 days); beyond, within 64 microseconds
Exact(d) == LET m == D3Abs(d) IN m[1] < 99420
Within64(x, y) == LET e == D3Abs(D3Sub(x, y)) IN e[1] = 0 /\ e[2] = 0 /\ e[3] <= 64

\* ---- C06 ---------------------------------------------------------------------------
\* c = <<years, months, days, hours, minutes, seconds, microseconds>> (days = 7 weeks + remaining)
CompRec(c) == [y |-> c[1], mo |-> c[2], w |-> 0, d |-> c[3], h |-> c[4], mi |-> c[5], s |-> c[6], us |-> c[7]]
InRanges(c) == /\ c[1] >= 0 /\ c[2] \in 0..11 /\ c[3] \in 0..30 /\ c[4] \in 0..23 /\ c[5] \in 0..59
               /\ c[6] \in 0..59 /\ c[7] \in 0..999999
Rebuilds(aw, bw, c) == AddCalWall(aw, CompRec(c)) = bw
ValidDecomposition(aw, bw, c) == InRanges(c) /\ Rebuilds(aw, bw, c)
Wall7(v) == IF IsDate(v) THEN <<v.w[1], v.w[2], v.w[3], 0, 0, 0, 0>> ELSE v.w
WallLe(a, b) == I3Le(I3OfWall(a), I3OfWall(b))

\* ---- implementation-shaped: the compiled helper's hand-written conversion of an end-point to UTC ----------------
\* (rust/src/python/helpers.rs: i32 division truncating toward zero; carries tested with `> 60` / `> 24`; the day is
\* moved without month arithmetic).  Used to LABEL the inputs on which that conversion is right.
TMod(a, b) == a - b * TDiv(a, b)            \* TDiv (truncating division) comes from Calendar
RustShift(w, off) ==
  LET h1 == w[4] - TDiv(off, 3600)   o1 == TMod(off, 3600)
      m1 == w[5] - TDiv(o1, 60)      o2 == TMod(o1, 60)
      s1 == w[6] - o2
      s2 == IF s1 < 0 THEN s1 + 60 ELSE IF s1 > 60 THEN s1 - 60 ELSE s1
      m2 == IF s1 < 0 THEN m1 - 1 ELSE IF s1 > 60 THEN m1 + 1 ELSE m1
      m3 == IF m2 < 0 THEN m2 + 60 ELSE IF m2 > 60 THEN m2 - 60 ELSE m2
      h2 == IF m2 < 0 THEN h1 - 1 ELSE IF m2 > 60 THEN h1 + 1 ELSE h1
      h3 == IF h2 < 0 THEN h2 + 24 ELSE IF h2 > 24 THEN h2 - 24 ELSE h2
      d1 == IF h2 < 0 THEN w[3] - 1 ELSE IF h2 > 24 THEN w[3] + 1 ELSE w[3]
  IN <<w[1], w[2], d1, h3, m3, s2, w[7]>>
\* the hand-written conversion of value v yields its true UTC wall reading
RustShiftOK(v) == LET r == RustShift(v.w, OffOf(v)) IN ValidWall(r) /\ r = WallOf(InstOf(v))

\* ---- implementation-shaped: precise_diff for aw <= bw expressed in one frame -----------
PrevMonth(y, m) == IF m = 1 THEN <<y - 1, 12>> ELSE <<y, m - 1>>
AlgPD(aw, bw) ==
  LET us0 == bw[7] - aw[7]   us == IF us0 < 0 THEN us0 + 1000000 ELSE us0
      s0 == bw[6] - aw[6] - (IF us0 < 0 THEN 1 ELSE 0)   s == IF s0 < 0 THEN s0 + 60 ELSE s0
      mi0 == bw[5] - aw[5] - (IF s0 < 0 THEN 1 ELSE 0)   mi == IF mi0 < 0 THEN mi0 + 60 ELSE mi0
      h0 == bw[4] - aw[4] - (IF mi0 < 0 THEN 1 ELSE 0)   h == IF h0 < 0 THEN h0 + 24 ELSE h0
      d0 == bw[3] - aw[3] - (IF h0 < 0 THEN 1 ELSE 0)
      y0 == bw[1] - aw[1]
      m0 == bw[2] - aw[2]
      pm == PrevMonth(bw[1], bw[2])
      dl == DaysInMonth(pm[1], pm[2])
      dm == DaysInMonth(bw[1], bw[2])
      br == IF d0 >= 0 THEN "none" ELSE IF d0 < dm - dl THEN (IF dl < aw[3] THEN "lt-startday" ELSE "lt") ELSE IF d0 = dm - dl THEN "eq" ELSE "gt"
      d1 == CASE br = "none" -> d0
               [] br = "lt-startday" -> d0 + aw[3]
               [] br = "lt" -> d0 + dl
               [] br = "eq" -> 0
               [] br = "gt" -> d0 + dl
      m1 == CASE br = "none" -> m0 [] br = "eq" -> m0 [] OTHER -> m0 - 1
      m2 == IF m1 < 0 THEN m1 + 12 ELSE m1
      y1 == IF m1 < 0 THEN y0 - 1 ELSE y0
  IN [c |-> <<y1, m2, d1, h, mi, s, us>>, br |-> br, borrow |-> h0 < 0]
=============================================================================
