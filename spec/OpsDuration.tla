------------------------------ MODULE OpsDuration ------------------------------
(***************************************************************************)
(* C09: Duration normalisation;  C10: Duration arithmetic = timedelta       *)
(* arithmetic;  C20: Time-of-day arithmetic modulo 24 h.                     *)
(* All in exact limb arithmetic on Dur3 = <<d, s, us>> (timedelta's own      *)
(* normal form).  Constructor arguments a = [y, mo, w, d, h, mi, s, ms, us]. *)
(***************************************************************************)
EXTENDS TimeScale

\* ---- C09 ---------------------------------------------------------------------------
\* the native timedelta of the same arguments, a year = 365 days, a month = 30 days
D3OfArgs(a) ==
  LET days == a.d + 365 * a.y + 30 * a.mo + 7 * a.w
      hp == <<a.h \div 24, (a.h % 24) * 3600, 0>>
      mp == <<a.mi \div 1440, (a.mi % 1440) * 60, 0>>
      sp == <<a.s \div 86400, a.s % 86400, 0>>
      msp == LET q == a.ms \div 1000 IN <<q \div 86400, q % 86400, (a.ms % 1000) * 1000>>
      usp == LET q == a.us \div 1000000 IN <<q \div 86400, q % 86400, a.us % 1000000>>
  IN D3Add(D3Add(D3Add(<<days, 0, 0>>, hp), D3Add(mp, sp)), D3Add(msp, usp))
YMDays(a) == 365 * a.y + 30 * a.mo
\* the part that excludes years and months
RestOf(a) == D3Sub(D3OfArgs(a), <<YMDays(a), 0, 0>>)
\* canonical signed breakdown <<weeks, remaining_days, hours, minutes, remaining_seconds, microseconds>>
Breakdown(r) == LET m == IF r[1] < 0 THEN -1 ELSE 1  A == D3Abs(r)
                IN <<m * (A[1] \div 7), m * (A[1] % 7), m * (A[2] \div 3600), m * ((A[2] % 3600) \div 60),
                     m * (A[2] % 60), m * A[3]>>
\* pendulum computes through float total_seconds(): exact below 2^33 s, or for whole seconds
FloatExact(t) == D3Abs(t)[1] < 99420 \/ t[3] = 0
\* truncation toward zero in a unit, as <<sign, magnitude>>; seconds and minutes as <<days, rest>> pairs
TruncSec(t) == LET A == D3Abs(t) m == <<A[1], A[2]>> IN <<IF m = <<0, 0>> THEN 0 ELSE D3Sign(t), m>>
TruncMin(t) == LET A == D3Abs(t) m == <<A[1], A[2] \div 60>> IN <<IF m = <<0, 0>> THEN 0 ELSE D3Sign(t), m>>
TruncHour(t) == LET A == D3Abs(t) m == <<A[1], A[2] \div 3600>> IN <<IF m = <<0, 0>> THEN 0 ELSE D3Sign(t), m>>
TruncDay(t) == LET A == D3Abs(t) IN <<IF A[1] = 0 THEN 0 ELSE D3Sign(t), A[1]>>
TruncWeek(t) == LET A == D3Abs(t) IN <<IF A[1] \div 7 = 0 THEN 0 ELSE D3Sign(t), A[1] \div 7>>
Near(x, y, tol) == LET e == D3Abs(D3Sub(x, y)) IN e[1] = 0 /\ e[2] = 0 /\ e[3] <= tol

\* ---- C10 ---------------------------------------------------------------------------
\* floor division of a Dur3 by 1 <= b <= 2000: quotient (Dur3) and remainder (0 <= r < b, microseconds)
D3DivMod(a, b) == LET qd == a[1] \div b   rd == a[1] % b
                      s1 == rd * 86400 + a[2]
                      qs == s1 \div b     rs == s1 % b
                      u1 == rs * 1000000 + a[3]
                      qu == u1 \div b     ru == u1 % b
                  IN [q |-> <<qd, qs, qu>>, r |-> ru]
D3FloorDivInt(a, n) == IF n > 0 THEN D3DivMod(a, n).q ELSE D3DivMod(D3Neg(a), -n).q
\* round-half-even division (Python's timedelta / int, _divide_and_round)
D3DivRHEpos(a, b) == LET x == D3DivMod(a, b)
                     IN IF 2 * x.r > b \/ (2 * x.r = b /\ x.q[3] % 2 = 1) THEN D3Add(x.q, <<0, 0, 1>>) ELSE x.q
D3DivRHE(a, n) == IF n > 0 THEN D3DivRHEpos(a, n) ELSE D3DivRHEpos(D3Neg(a), -n)
\* multiplication / division by the float num/den (as_integer_ratio), |num| <= 2000, 1 <= den <= 1024
D3MulRatio(a, num, den) == D3DivRHE(D3MulInt(a, num), den)
D3DivRatio(a, num, den) == D3DivRHE(D3MulInt(a, den), num)
\* duration (/) duration: exact integers, when both fit (microseconds below 2000 s, or whole seconds)
\* bounds chosen so that b * floor(a / b) (|.| <= |a| + |b|) stays below 2^31
FitsUs(t) == LET A == D3Abs(t) IN A[1] = 0 /\ A[2] < 1000
UsOf(t) == IF t[1] < 0 THEN -((D3Abs(t)[2]) * 1000000 + D3Abs(t)[3]) ELSE t[2] * 1000000 + t[3]
WholeSec(t) == t[3] = 0 /\ D3Abs(t)[1] < 12000
SecOf(t) == t[1] * 86400 + t[2]
IFloorDiv(a, b) == IF b > 0 THEN a \div b ELSE (-a) \div (-b)
IMod(a, b) == a - b * IFloorDiv(a, b)
UsToD3(n) == D3Norm(0, 0, n)
SecToD3(n) == D3Norm(0, n, 0)
Comparable(x, y) == (FitsUs(x) /\ FitsUs(y)) \/ (WholeSec(x) /\ WholeSec(y))
QuoOf(x, y) == IF FitsUs(x) /\ FitsUs(y) THEN IFloorDiv(UsOf(x), UsOf(y)) ELSE IFloorDiv(SecOf(x), SecOf(y))
RemOf(x, y) == IF FitsUs(x) /\ FitsUs(y) THEN UsToD3(IMod(UsOf(x), UsOf(y))) ELSE SecToD3(IMod(SecOf(x), SecOf(y)))

\* ---- C20 ---------------------------------------------------------------------------
\* time of day t = <<h, mi, s, us>>
TimeD3(t) == <<0, t[1] * 3600 + t[2] * 60 + t[3], t[4]>>
TimeOfD3(d) == <<d[2] \div 3600, (d[2] % 3600) \div 60, d[2] % 60, d[3]>>
TimeAdd(t, d) == TimeOfD3(D3Add(TimeD3(t), d))            \* the day limb is dropped: modulo 24 h
TimeDiff(t1, t2) == D3Sub(TimeD3(t2), TimeD3(t1))         \* signed, to the microsecond
=============================================================================
