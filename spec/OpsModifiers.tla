------------------------------ MODULE OpsModifiers ------------------------------
(***************************************************************************)
(* C12: start_of / end_of delimit exactly the calendar unit that contains   *)
(*      the value (reference = first / last INSTANT of the unit in the      *)
(*      value's zone; MC_Modifiers checks that this reference satisfies the  *)
(*      property's predicate on every synthetic zone geometry).              *)
(* C16: weekday navigation (next/previous/first_of/last_of/nth_of).          *)
(* Weekdays are pendulum's WeekDay numbers 0 = Monday .. 6 = Sunday.         *)
(* cfg = [ws |-> week_starts_at, we |-> week_ends_at].                       *)
(***************************************************************************)
EXTENDS OpsArith

Units == {"second", "minute", "hour", "day", "week", "month", "year", "decade", "century"}
DateUnits == {"day", "week", "month", "year", "decade", "century"}
SubDay(u) == u \in {"second", "minute", "hour"}
Dow(n) == Weekday(n) - 1
DateW(n, h, mi, s, us) == LET t == YMD(n) IN <<t[1], t[2], t[3], h, mi, s, us>>

\* first / last wall-clock reading of the unit containing wall reading w
UnitStartW(u, w, cfg) ==
  CASE u = "second" -> <<w[1], w[2], w[3], w[4], w[5], w[6], 0>>
    [] u = "minute" -> <<w[1], w[2], w[3], w[4], w[5], 0, 0>>
    [] u = "hour"   -> <<w[1], w[2], w[3], w[4], 0, 0, 0>>
    [] u = "day"    -> <<w[1], w[2], w[3], 0, 0, 0, 0>>
    [] u = "week"   -> LET n == Ord(w[1], w[2], w[3]) IN DateW(n - ((Dow(n) - cfg.ws) % 7), 0, 0, 0, 0)
    [] u = "month"  -> <<w[1], w[2], 1, 0, 0, 0, 0>>
    [] u = "year"   -> <<w[1], 1, 1, 0, 0, 0, 0>>
    [] u = "decade" -> <<w[1] - (w[1] % 10), 1, 1, 0, 0, 0, 0>>
    [] u = "century" -> <<w[1] - 1 - ((w[1] - 1) % 100) + 1, 1, 1, 0, 0, 0, 0>>
UnitEndW(u, w, cfg) ==
  CASE u = "second" -> <<w[1], w[2], w[3], w[4], w[5], w[6], 999999>>
    [] u = "minute" -> <<w[1], w[2], w[3], w[4], w[5], 59, 999999>>
    [] u = "hour"   -> <<w[1], w[2], w[3], w[4], 59, 59, 999999>>
    [] u = "day"    -> <<w[1], w[2], w[3], 23, 59, 59, 999999>>
    [] u = "week"   -> LET n == Ord(w[1], w[2], w[3]) IN DateW(n + ((cfg.we - Dow(n)) % 7), 23, 59, 59, 999999)
    [] u = "month"  -> <<w[1], w[2], DaysInMonth(w[1], w[2]), 23, 59, 59, 999999>>
    [] u = "year"   -> <<w[1], 12, 31, 23, 59, 59, 999999>>
    [] u = "decade" -> <<w[1] - (w[1] % 10) + 9, 12, 31, 23, 59, 59, 999999>>
    [] u = "century" -> <<w[1] - 1 - ((w[1] - 1) % 100) + 100, 12, 31, 23, 59, 59, 999999>>
\* two wall readings lie in the same calendar unit
SameUnit(u, a, b, cfg) == UnitStartW(u, a, cfg) = UnitStartW(u, b, cfg)

\* UTC instant (DS) of the transition whose gap covers the skipped wall key k
GapInstant(z0, k) == LET z == EZ(z0, YearOf(k[1])) IN z.trs[Idx(z, 1, k)].at

\* reference: the FIRST instant of the unit of x.  Whole-day units start at the earlier occurrence of a
\* repeated boundary and at the end of a gap that covers the boundary; sub-day units keep x's occurrence.
StartOfRef(x, u, cfg) ==
  LET sw == UnitStartW(u, x.w, cfg) IN
  IF IsNaive(x) THEN DT(x.z, sw, x.f)
  ELSE LET z == Z(x.z)  k == WDS(sw)  c == Classify(z, k) IN
       IF c = "skipped" THEN LET t == GapInstant(z, k) IN FromInst(x.z, <<t[1], t[2], 0>>)
       ELSE IF c = "repeated" THEN DT(x.z, sw, IF SubDay(u) THEN x.f ELSE 0)
       ELSE DT(x.z, sw, x.f)
EndOfRef(x, u, cfg) ==
  LET ew == UnitEndW(u, x.w, cfg) IN
  IF IsNaive(x) THEN DT(x.z, ew, x.f)
  ELSE LET z == Z(x.z)  k == WDS(ew)  c == Classify(z, k) IN
       IF c = "skipped" THEN LET t == GapInstant(z, k) IN FromInst(x.z, I3AddDur(<<t[1], t[2], 0>>, <<-1, 86399, 999999>>))
       ELSE IF c = "repeated" THEN DT(x.z, ew, IF SubDay(u) THEN x.f ELSE 1)
       ELSE DT(x.z, ew, x.f)
BoundaryClass(x, u, cfg, end) == IF IsNaive(x) THEN "unique"
                                 ELSE Classify(Z(x.z), WDS(IF end THEN UnitEndW(u, x.w, cfg) ELSE UnitStartW(u, x.w, cfg)))
\* Date versions (a Date has no time: start/end of a day is the date itself)
StartOfDate(w, u, cfg) == LET r == UnitStartW(u, <<w[1], w[2], w[3], 0, 0, 0, 0>>, cfg) IN <<r[1], r[2], r[3]>>
EndOfDate(w, u, cfg) == LET r == UnitEndW(u, <<w[1], w[2], w[3], 0, 0, 0, 0>>, cfg) IN <<r[1], r[2], r[3]>>

\* some day a..b (ordinals) has a midnight that is skipped or repeated in zone z0
\* (evaluated on the transitions that fall into the range, not day by day)
MidnightAnomaly(z0, a, b) ==
  LET z == EZ(z0, YearOf(b))
      k1 == Idx(z, 2, <<a - 2, 0>>)
      k2 == Idx(z, 2, <<b + 2, 0>>)
  IN \E k \in (k1 + 1)..k2 :
        LET lo == TrKey(z, 1, k)  hi == TrKey(z, 0, k)
        IN lo # hi /\ DSLe(<<a, 0>>, hi) /\ DSLe(lo, <<b, 86399>>) /\ (lo[2] = 0 \/ lo[1] # DSAdd(hi, -1)[1])
\* some day a..b is skipped entirely (its noon does not exist)
SkippedDay(z0, a, b) == \E d \in a..b : Classify(z0, <<d, 43200>>) = "skipped"

\* ---- C16 ---------------------------------------------------------------------------
\* ordinal of the nearest strictly later / earlier date with weekday wd (1..7 days away)
NextOrd(n, wd) == n + ((wd - Dow(n) - 1) % 7) + 1
PrevOrd(n, wd) == n - (((Dow(n) - wd - 1) % 7) + 1)
\* first and last day (ordinals) of the month / quarter / year containing (y, m)
UnitFirst(unit, y, m) == CASE unit = "month" -> Ord(y, m, 1)
                           [] unit = "quarter" -> Ord(y, Quarter(m) * 3 - 2, 1)
                           [] unit = "year" -> Ord(y, 1, 1)
UnitLast(unit, y, m) == CASE unit = "month" -> Ord(y, m, DaysInMonth(y, m))
                          [] unit = "quarter" -> Ord(y, Quarter(m) * 3, DaysInMonth(y, Quarter(m) * 3))
                          [] unit = "year" -> Ord(y, 12, 31)
\* wd = -1 : no weekday given
FirstOfOrd(unit, y, m, wd) == LET f == UnitFirst(unit, y, m) IN IF wd = -1 THEN f ELSE f + ((wd - Dow(f)) % 7)
LastOfOrd(unit, y, m, wd) == LET l == UnitLast(unit, y, m) IN IF wd = -1 THEN l ELSE l - ((Dow(l) - wd) % 7)
\* n-th such weekday inside the unit, 0 if the unit holds fewer than n
NthOfOrd(unit, y, m, n, wd) == LET d == FirstOfOrd(unit, y, m, wd) + 7 * (n - 1)
                               IN IF d <= UnitLast(unit, y, m) THEN d ELSE 0
=============================================================================
