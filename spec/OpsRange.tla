-------------------------------- MODULE OpsRange --------------------------------
(***************************************************************************)
(* C19: Interval.range(unit, n) / iteration.  The k-th value is computed    *)
(* FROM THE START (start shifted by k*n units), so month-end clamping never *)
(* accumulates; iteration proceeds in the direction of the interval and     *)
(* stops at the last value not beyond the end.                              *)
(* Points are DateTime values or Dates ([k |-> "date", w |-> <<y,m,d>>]).    *)
(***************************************************************************)
EXTENDS OpsDiff

RUnits == {"years", "months", "weeks", "days", "hours", "minutes", "seconds", "microseconds"}
UnitC(unit, m) == [y |-> IF unit = "years" THEN m ELSE 0, mo |-> IF unit = "months" THEN m ELSE 0,
                   w |-> IF unit = "weeks" THEN m ELSE 0, d |-> IF unit = "days" THEN m ELSE 0,
                   h |-> IF unit = "hours" THEN m ELSE 0, mi |-> IF unit = "minutes" THEN m ELSE 0,
                   s |-> IF unit = "seconds" THEN m ELSE 0, us |-> IF unit = "microseconds" THEN m ELSE 0]
\* start shifted by m units (m may be negative)
Shift(p, unit, m) == IF IsDate(p) THEN [k |-> "date", w |-> AddCalDate(p.w, UnitC(unit, m))]
                     ELSE Add(DT(p.z, p.w, p.f), UnitC(unit, m))
PLe(a, b) == I3Le(PointOf(a), PointOf(b))
PLt(a, b) == I3Lt(PointOf(a), PointOf(b))
\* effective start / end / direction of Interval(a, b, absolute)
IvStart(a, b, abs) == IF abs /\ PLt(b, a) THEN b ELSE a
IvEnd(a, b, abs) == IF abs /\ PLt(b, a) THEN a ELSE b
IvDir(a, b, abs) == IF ~abs /\ PLt(b, a) THEN -1 ELSE 1
\* k-th value (k = 0, 1, ...) and the stopping test
Kth(a, b, abs, unit, n, k) == Shift(IvStart(a, b, abs), unit, IvDir(a, b, abs) * k * n)
NotBeyond(a, b, abs, p) == IF IvDir(a, b, abs) = 1 THEN PLe(p, IvEnd(a, b, abs)) ELSE PLe(IvEnd(a, b, abs), p)
\* x lies between the two end-points (whatever their order)
Between(a, b, x) == (PLe(a, x) /\ PLe(x, b)) \/ (PLe(b, x) /\ PLe(x, a))
\* `x in interval` is DEFINED as start <= x <= end (so nothing is "in" an inverted, non-absolute interval)
Contains(a, b, abs, x) == PLe(IvStart(a, b, abs), x) /\ PLe(x, IvEnd(a, b, abs))
=============================================================================
