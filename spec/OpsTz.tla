-------------------------------- MODULE OpsTz --------------------------------
(***************************************************************************)
(* Conversion between zones and construction from wall-clock fields         *)
(* (properties C01, C02) and fixed-length arithmetic (C03): the reference   *)
(* result of every entry point, as a function of the abstract values.       *)
(* These operators are the actions' bodies in Session.tla and the oracles    *)
(* of Trace.tla.                                                            *)
(***************************************************************************)
EXTENDS Values

\* ---- C01 ---------------------------------------------------------------------------
InTz(src, zr) == FromInst(zr, InstOf(src))
FromTimestamp(i, zr) == FromInst(zr, i)
IntTimestamp(src) == LET i == InstOf(src) IN <<i[1], i[2]>>        \* floor to the second
\* a native aware datetime denotes wall - utcoffset whatever its tzinfo kind
NativeInst(w, off) == I3AddSec(I3OfWall(w), -off)

\* ---- C02 ---------------------------------------------------------------------------
\* strict = raise_on_unknown_times
Create(zr, w, f, strict) ==
   LET c == IF zr.n = "naive" THEN "unique" ELSE Classify(Z(zr), WDS(w)) IN
   IF strict /\ c = "skipped" THEN Exc({"NonExistingTime"})
   ELSE IF strict /\ c = "repeated" THEN Exc({"AmbiguousTime"})
   ELSE Construct(zr, w, f)
\* set()/on()/at(): fields of src overridden, zone and fold of src kept
Merge(w, o) == [i \in 1..7 |-> IF o[i] = -1 THEN w[i] ELSE o[i]]
SetFields(src, o) == Construct(src.z, Merge(src.w, o), src.f)
\* replace(): like set() but fold may be given (-1 = keep)
ReplaceFields(src, o, f) == Construct(src.z, Merge(src.w, o), IF f = -1 THEN src.f ELSE f)
\* Timezone.datetime(): always the default fold (1)
TzDatetime(zr, w) == Construct(zr, w, 1)
\* in_timezone() of a naive value: its fields are a wall reading in the target zone, default fold
NaiveInTz(src, zr) == Construct(zr, src.w, 1)

\* ---- C03 ---------------------------------------------------------------------------
\* move the instant by exactly d (Dur3); naive values move on their own clock
AddFixed(src, d) == IF IsNaive(src) THEN DT(src.z, WallOf(I3AddDur(I3OfWall(src.w), d)), src.f)
                    ELSE FromInst(src.z, I3AddDur(InstOf(src), d))
=============================================================================
