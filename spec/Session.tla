-------------------------------- MODULE Session --------------------------------
(***************************************************************************)
(* The state machine of a pendulum program: a small register file of        *)
(* DateTime values plus the process-wide week configuration; one action per *)
(* public API call, each defined from the reference operators of the Ops*    *)
(* modules (the same operators Trace.tla judges recorded calls with).        *)
(*                                                                           *)
(* MC_Session explores it exhaustively to a small depth on the synthetic      *)
(* zones and checks the properties as invariants / action properties;         *)
(* `tlc -simulate` produces behaviours that harness/gr.py replays into the    *)
(* real library THREADING THE REAL OBJECTS through the registers, so hidden   *)
(* state produced by one call (fold, tzinfo identity) is what the next call   *)
(* sees.  `last` is an observation variable (action, arguments, registers).   *)
(***************************************************************************)
EXTENDS OpsModifiers

CONSTANTS Regs, ZoneRefs, Walls, Deltas, CalShifts, ModUnits, WeekStarts
VARIABLES regs, cfg, last
vars == <<regs, cfg, last>>
Absent == [k |-> "absent"]
Present(r) == regs[r].k = "dt"
Obs(op, src, dst, args) == [op |-> op, src |-> src, dst |-> dst, a |-> args]

Init == /\ regs = [r \in Regs |-> Absent]
        /\ cfg = [ws |-> 0, we |-> 6]
        /\ last = Obs("init", "-", "-", [x |-> 0])

\* datetime(): the normalising constructor
CreateA(dst, zr, w, f) ==
  /\ regs' = [regs EXCEPT ![dst] = Construct(zr, w, f)]
  /\ last' = Obs("create", "-", dst, [tz |-> zr, w |-> w, f |-> f, strict |-> FALSE, entry |-> "datetime"])
  /\ UNCHANGED cfg
InTzA(src, dst, zr) ==
  /\ Present(src)
  /\ regs' = [regs EXCEPT ![dst] = InTz(regs[src], zr)]
  /\ last' = Obs("in_tz", src, dst, [tz |-> zr])
  /\ UNCHANGED cfg
AddFixedA(src, dst, d) ==        \* d = <<h, mi, s, us>>
  /\ Present(src)
  /\ regs' = [regs EXCEPT ![dst] = AddFixed(regs[src], D3Of(0, d[1], d[2], d[3], d[4]))]
  /\ last' = Obs("add_fixed", src, dst, [h |-> d[1], mi |-> d[2], s |-> d[3], us |-> d[4], entry |-> "add"])
  /\ UNCHANGED cfg
AddCalA(src, dst, c) ==
  /\ Present(src) /\ HasCal(c) /\ CalInRange(regs[src].w, c)
  /\ regs' = [regs EXCEPT ![dst] = AddCal(regs[src], c)]
  /\ last' = Obs("add_cal", src, dst, [c |-> c, entry |-> "add"])
  /\ UNCHANGED cfg
StartOfA(src, dst, u) ==
  /\ Present(src)
  /\ regs' = [regs EXCEPT ![dst] = StartOfRef(regs[src], u, cfg)]
  /\ last' = Obs("start_of", src, dst, [unit |-> u, cfg |-> cfg, how |-> "session"])
  /\ UNCHANGED cfg
EndOfA(src, dst, u) ==
  /\ Present(src)
  /\ regs' = [regs EXCEPT ![dst] = EndOfRef(regs[src], u, cfg)]
  /\ last' = Obs("end_of", src, dst, [unit |-> u, cfg |-> cfg, how |-> "session"])
  /\ UNCHANGED cfg
\* pickle / copy / deepcopy: the abstraction does not change
CopyA(src, dst, how) ==
  /\ Present(src)
  /\ regs' = [regs EXCEPT ![dst] = regs[src]]
  /\ last' = Obs("copy", src, dst, [how |-> how])
  /\ UNCHANGED cfg
\* week_starts_at / week_ends_at (the 7 consistent configurations)
SetWeekA(ws) ==
  /\ cfg' = [ws |-> ws, we |-> (ws + 6) % 7]
  /\ last' = Obs("set_week", "-", "-", [ws |-> ws])
  /\ UNCHANGED regs

Next == \/ \E dst \in Regs, zr \in ZoneRefs, w \in Walls, f \in {0, 1} : CreateA(dst, zr, w, f)
        \/ \E src \in Regs, dst \in Regs, zr \in ZoneRefs : InTzA(src, dst, zr)
        \/ \E src \in Regs, dst \in Regs, d \in Deltas : AddFixedA(src, dst, d)
        \/ \E src \in Regs, dst \in Regs, c \in CalShifts : AddCalA(src, dst, c)
        \/ \E src \in Regs, dst \in Regs, u \in ModUnits : StartOfA(src, dst, u) \/ EndOfA(src, dst, u)
        \/ \E src \in Regs, dst \in Regs, how \in {"pickle2", "copy", "deepcopy"} : CopyA(src, dst, how)
        \/ \E ws \in WeekStarts : SetWeekA(ws)
Spec == Init /\ [][Next]_vars

\* ---- properties of the state machine ---------------------------------------------------
\* every value a program can hold is well-formed and survives a round trip through UTC (C02)
AllWellFormed == \A r \in Regs : Present(r) => WellFormed(regs[r]) /\ RoundTrips(regs[r])
\* conversion preserves the instant and lands in the requested zone (C01)
ConvPreserves == [][\A s \in Regs, d \in Regs, zr \in ZoneRefs :
                      InTzA(s, d, zr) => InstOf(regs'[d]) = InstOf(regs[s]) /\ regs'[d].z = ZRef(zr)]_vars
\* path independence: converting the result again gives what a direct conversion gives (C01)
PathIndependent == \A r \in Regs, z1 \in ZoneRefs, z2 \in ZoneRefs :
                      Present(r) => InTz(InTz(regs[r], z1), z2) = InTz(regs[r], z2)
\* subtracting what was added returns to the instant and offset (C03)
AddSubInverse == \A r \in Regs, d \in Deltas : Present(r) /\ ~IsNaive(regs[r]) =>
                    LET dd == D3Of(0, d[1], d[2], d[3], d[4])
                        back == AddFixed(AddFixed(regs[r], dd), D3Neg(dd))
                    IN InstOf(back) = InstOf(regs[r]) /\ OffOf(back) = OffOf(regs[r])
\* start_of / end_of delimit the unit and are idempotent, whatever the history of the value (C12)
ModifiersOk == \A r \in Regs, u \in ModUnits : Present(r) =>
                  LET x == regs[r]  s == StartOfRef(x, u, cfg)  e == EndOfRef(x, u, cfg)
                  IN /\ I3Le(InstOf(s), InstOf(x)) /\ I3Le(InstOf(x), InstOf(e))
                     /\ SameUnit(u, s.w, x.w, cfg) /\ SameUnit(u, e.w, x.w, cfg)
                     /\ StartOfRef(s, u, cfg) = s /\ EndOfRef(e, u, cfg) = e
\* results of start_of depend only on (instant, zone, cfg): two registers holding the same instant in the
\* same zone - however they were obtained - have the same start of day
HistoryIndependent == \A r1 \in Regs, r2 \in Regs :
   (Present(r1) /\ Present(r2) /\ regs[r1].z = regs[r2].z /\ InstOf(regs[r1]) = InstOf(regs[r2])) =>
       \A u \in ModUnits \ {"second", "minute", "hour"} :
          LET s1 == StartOfRef(regs[r1], u, cfg)  s2 == StartOfRef(regs[r2], u, cfg)
          IN s1.w = s2.w /\ InstOf(s1) = InstOf(s2)          \* equal up to the fold attribute of an unambiguous reading
\* copying is a stuttering step on the abstraction (C14)
CopyStutters == [][\A s \in Regs, d \in Regs, h \in {"pickle2", "copy", "deepcopy"} : CopyA(s, d, h) => regs'[d] = regs[s]]_vars
=============================================================================
