-------------------------------- MODULE Session --------------------------------
(***************************************************************************)
(* The state machine of a pendulum program: a small register file of        *)
(* DateTime values plus the process-wide week configuration; one action per *)
(* public API call, each defined from the reference operators of the Ops*    *)
(* modules (the same operators Trace.tla judges recorded calls with).        *)
(*                                                                           *)
(* MC_Session explores it exhaustively to a small depth on the synthetic      *)
(* zones and checks the properties as invariants / action properties;         *)
(* `tlc -simulate` produces behaviours that harness/gr.py replays into the    *)
(* real library THREADING THE REAL OBJECTS through the registers, so hidden   *)
(* state produced by one call (fold, tzinfo identity) is what the next call   *)
(* sees.  `last` is an observation variable (action, arguments, registers).   *)
(***************************************************************************)
EXTENDS OpsModifiers, OpsRange

CONSTANTS Regs, ZoneRefs, Walls, Deltas, CalShifts, ModUnits, WeekStarts, Overrides, Weekdays, RangeSteps
VARIABLES regs, cfg, last
vars == <<regs, cfg, last>>
Absent == [k |-> "absent"]
Present(r) == regs[r].k = "dt"
Obs(op, src, dst, args) == [op |-> op, src |-> src, dst |-> dst, a |-> args]

Init == /\ regs = [r \in Regs |-> Absent]
        /\ cfg = [ws |-> 0, we |-> 6]
        /\ last = Obs("init", "-", "-", [x |-> 0])

\* datetime(): the normalising constructor
CreateA(dst, zr, w, f) ==
  /\ regs' = [regs EXCEPT ![dst] = Construct(zr, w, f)]
  /\ last' = Obs("create", "-", dst, [tz |-> zr, w |-> w, f |-> f, strict |-> FALSE, entry |-> "datetime"])
  /\ UNCHANGED cfg
InTzA(src, dst, zr) ==
  /\ Present(src)
  /\ regs' = [regs EXCEPT ![dst] = InTz(regs[src], zr)]
  /\ last' = Obs("in_tz", src, dst, [tz |-> zr])
  /\ UNCHANGED cfg
AddFixedA(src, dst, d) ==        \* d = <<h, mi, s, us>>
  /\ Present(src)
  /\ regs' = [regs EXCEPT ![dst] = AddFixed(regs[src], D3Of(0, d[1], d[2], d[3], d[4]))]
  /\ last' = Obs("add_fixed", src, dst, [h |-> d[1], mi |-> d[2], s |-> d[3], us |-> d[4], entry |-> "add"])
  /\ UNCHANGED cfg
AddCalA(src, dst, c) ==
  /\ Present(src) /\ HasCal(c) /\ CalInRange(regs[src].w, c)
  /\ regs' = [regs EXCEPT ![dst] = AddCal(regs[src], c)]
  /\ last' = Obs("add_cal", src, dst, [c |-> c, entry |-> "add"])
  /\ UNCHANGED cfg
StartOfA(src, dst, u) ==
  /\ Present(src)
  /\ regs' = [regs EXCEPT ![dst] = StartOfRef(regs[src], u, cfg)]
  /\ last' = Obs("start_of", src, dst, [unit |-> u, cfg |-> cfg, how |-> "session"])
  /\ UNCHANGED cfg
EndOfA(src, dst, u) ==
  /\ Present(src)
  /\ regs' = [regs EXCEPT ![dst] = EndOfRef(regs[src], u, cfg)]
  /\ last' = Obs("end_of", src, dst, [unit |-> u, cfg |-> cfg, how |-> "session"])
  /\ UNCHANGED cfg
\* set() / on() / at(): fields overridden, zone and fold kept, result normalised (C02)
SetA(src, dst, o) ==
  /\ Present(src) /\ ValidWall(Merge(regs[src].w, o))
  /\ regs' = [regs EXCEPT ![dst] = SetFields(regs[src], o)]
  /\ last' = Obs("set", src, dst, [o |-> o, entry |-> "set"])
  /\ UNCHANGED cfg
\* next(weekday) / previous(weekday): midnight of the nearest such day strictly after / before (C16)
NavRef(x, n) == Construct(x.z, DateW(n, 0, 0, 0, 0), 1)
NextA(src, dst, wd) ==
  /\ Present(src)
  /\ regs' = [regs EXCEPT ![dst] = NavRef(regs[src], NextOrd(Ord(regs[src].w[1], regs[src].w[2], regs[src].w[3]), wd))]
  /\ last' = Obs("next", src, dst, [wd |-> wd, keep |-> FALSE])
  /\ UNCHANGED cfg
PrevA(src, dst, wd) ==
  /\ Present(src)
  /\ regs' = [regs EXCEPT ![dst] = NavRef(regs[src], PrevOrd(Ord(regs[src].w[1], regs[src].w[2], regs[src].w[3]), wd))]
  /\ last' = Obs("previous", src, dst, [wd |-> wd, keep |-> FALSE])
  /\ UNCHANGED cfg
\* first_of / last_of("month", weekday)
OfA(src, dst, which, wd) ==
  /\ Present(src)
  /\ LET x == regs[src]
         n == IF which = "first_of" THEN FirstOfOrd("month", x.w[1], x.w[2], wd) ELSE LastOfOrd("month", x.w[1], x.w[2], wd)
     IN regs' = [regs EXCEPT ![dst] = NavRef(x, n)]
  /\ last' = Obs(which, src, dst, [unit |-> "month", wd |-> wd])
  /\ UNCHANGED cfg
\* Queries: calls that take two held values and return something that is not held (an Interval's length, its
\* components, the values of a range).  They leave the registers alone - stuttering steps on the abstraction -
\* and exist so that simulated behaviours ask them of values WITH A HISTORY; the answers are judged by Trace.
Query(op, s1, s2, args) ==
  /\ Present(s1) /\ Present(s2)
  /\ last' = Obs(op, s1, "-", args @@ [src2 |-> s2])
  /\ UNCHANGED <<regs, cfg>>
LenQ(s1, s2, entry) == Query("iv_len", s1, s2, [entry |-> entry])
CompQ(s1, s2) == Query("iv_comp", s1, s2, [entry |-> "sub"])
RangeQ(s1, s2, unit, n, abs) == Query("range", s1, s2, [unit |-> unit, n |-> n, abs |-> abs])
\* pickle / copy / deepcopy: the abstraction does not change
CopyA(src, dst, how) ==
  /\ Present(src)
  /\ regs' = [regs EXCEPT ![dst] = regs[src]]
  /\ last' = Obs("copy", src, dst, [how |-> how])
  /\ UNCHANGED cfg
\* week_starts_at / week_ends_at (the 7 consistent configurations)
SetWeekA(ws) ==
  /\ cfg' = [ws |-> ws, we |-> (ws + 6) % 7]
  /\ last' = Obs("set_week", "-", "-", [ws |-> ws])
  /\ UNCHANGED regs

Next == \/ \E dst \in Regs, zr \in ZoneRefs, w \in Walls, f \in {0, 1} : CreateA(dst, zr, w, f)
        \/ \E src \in Regs, dst \in Regs, zr \in ZoneRefs : InTzA(src, dst, zr)
        \/ \E src \in Regs, dst \in Regs, d \in Deltas : AddFixedA(src, dst, d)
        \/ \E src \in Regs, dst \in Regs, c \in CalShifts : AddCalA(src, dst, c)
        \/ \E src \in Regs, dst \in Regs, u \in ModUnits : StartOfA(src, dst, u) \/ EndOfA(src, dst, u)
        \/ \E src \in Regs, dst \in Regs, o \in Overrides : SetA(src, dst, o)
        \/ \E src \in Regs, dst \in Regs, wd \in Weekdays : NextA(src, dst, wd) \/ PrevA(src, dst, wd)
        \/ \E src \in Regs, dst \in Regs, wd \in Weekdays, which \in {"first_of", "last_of"} : OfA(src, dst, which, wd)
        \/ \E s1 \in Regs, s2 \in Regs, en \in {"Interval", "sub", "diff", "abs", "interval_abs"} : LenQ(s1, s2, en)
        \/ \E s1 \in Regs, s2 \in Regs : CompQ(s1, s2)
        \/ \E s1 \in Regs, s2 \in Regs, st \in RangeSteps, ab \in BOOLEAN : RangeQ(s1, s2, st[1], st[2], ab)
        \/ \E src \in Regs, dst \in Regs, how \in {"pickle2", "copy", "deepcopy"} : CopyA(src, dst, how)
        \/ \E ws \in WeekStarts : SetWeekA(ws)
Spec == Init /\ [][Next]_vars

\* ---- properties of the state machine ---------------------------------------------------
\* every value a program can hold is well-formed and survives a round trip through UTC (C02)
AllWellFormed == \A r \in Regs : Present(r) => WellFormed(regs[r]) /\ RoundTrips(regs[r])
\* conversion preserves the instant and lands in the requested zone (C01)
ConvPreserves == [][\A s \in Regs, d \in Regs, zr \in ZoneRefs :
                      InTzA(s, d, zr) => InstOf(regs'[d]) = InstOf(regs[s]) /\ regs'[d].z = ZRef(zr)]_vars
\* path independence: converting the result again gives what a direct conversion gives (C01)
PathIndependent == \A r \in Regs, z1 \in ZoneRefs, z2 \in ZoneRefs :
                      Present(r) => InTz(InTz(regs[r], z1), z2) = InTz(regs[r], z2)
\* subtracting what was added returns to the instant and offset (C03)
AddSubInverse == \A r \in Regs, d \in Deltas : Present(r) /\ ~IsNaive(regs[r]) =>
                    LET dd == D3Of(0, d[1], d[2], d[3], d[4])
                        back == AddFixed(AddFixed(regs[r], dd), D3Neg(dd))
                    IN InstOf(back) = InstOf(regs[r]) /\ OffOf(back) = OffOf(regs[r])
\* start_of / end_of delimit the unit and are idempotent, whatever the history of the value (C12)
ModifiersOk == \A r \in Regs, u \in ModUnits : Present(r) =>
                  LET x == regs[r]  s == StartOfRef(x, u, cfg)  e == EndOfRef(x, u, cfg)
                  IN /\ I3Le(InstOf(s), InstOf(x)) /\ I3Le(InstOf(x), InstOf(e))
                     /\ SameUnit(u, s.w, x.w, cfg) /\ SameUnit(u, e.w, x.w, cfg)
                     /\ StartOfRef(s, u, cfg) = s /\ EndOfRef(e, u, cfg) = e
\* results of start_of depend only on (instant, zone, cfg): two registers holding the same instant in the
\* same zone - however they were obtained - have the same start of day
HistoryIndependent == \A r1 \in Regs, r2 \in Regs :
   (Present(r1) /\ Present(r2) /\ regs[r1].z = regs[r2].z /\ InstOf(regs[r1]) = InstOf(regs[r2])) =>
       \A u \in ModUnits \ {"second", "minute", "hour"} :
          LET s1 == StartOfRef(regs[r1], u, cfg)  s2 == StartOfRef(regs[r2], u, cfg)
          IN s1.w = s2.w /\ InstOf(s1) = InstOf(s2)          \* equal up to the fold attribute of an unambiguous reading
\* elapsed time between held values is antisymmetric and additive, whatever zones and folds they carry (C05)
ElapsedConsistent == \A r1 \in Regs, r2 \in Regs, r3 \in Regs : (Present(r1) /\ Present(r2) /\ Present(r3)) =>
   /\ Elapsed(regs[r1], regs[r2]) = D3Neg(Elapsed(regs[r2], regs[r1]))
   /\ Elapsed(regs[r1], regs[r3]) = D3Add(Elapsed(regs[r1], regs[r2]), Elapsed(regs[r2], regs[r3]))
\* fixed-length arithmetic moves the instant by exactly the amount (C03 x C05)
AddMovesBy == [][\A s \in Regs, d \in Regs, dl \in Deltas :
                   (AddFixedA(s, d, dl) /\ ~IsNaive(regs[s])) => Elapsed(regs[s], regs'[d]) = D3Of(0, dl[1], dl[2], dl[3], dl[4])]_vars
\* weekday navigation lands on the requested weekday, at midnight or - where midnight does not exist - at the
\* first instant of that day, strictly after / before the source day and at most a week away (C16)
NavOk == \A r \in Regs, wd \in Weekdays : Present(r) =>
   LET x == regs[r]  n0 == Ord(x.w[1], x.w[2], x.w[3])
       nx == NavRef(x, NextOrd(n0, wd))  pv == NavRef(x, PrevOrd(n0, wd))
       DayOf(v) == Ord(v.w[1], v.w[2], v.w[3])
   IN /\ WellFormed(nx) /\ WellFormed(pv)
      /\ Dow(DayOf(nx)) = wd /\ Dow(DayOf(pv)) = wd
      /\ DayOf(nx) - n0 \in 1..7 /\ n0 - DayOf(pv) \in 1..7
      /\ I3Lt(InstOf(x), InstOf(nx)) /\ I3Lt(InstOf(pv), InstOf(x))
\* set() keeps zone and every field it was not given, unless the reading had to be normalised out of a gap
SetKeeps == [][\A s \in Regs, d \in Regs, o \in Overrides :
                 SetA(s, d, o) => /\ regs'[d].z = regs[s].z
                                  /\ (Classify(Z(regs[s].z), WDS(Merge(regs[s].w, o))) # "skipped" => regs'[d].w = Merge(regs[s].w, o))]_vars
\* copying is a stuttering step on the abstraction (C14)
CopyStutters == [][\A s \in Regs, d \in Regs, h \in {"pickle2", "copy", "deepcopy"} : CopyA(s, d, h) => regs'[d] = regs[s]]_vars
=============================================================================
