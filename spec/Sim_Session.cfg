CONSTANTS
  Regs <- MCRegs
  ZoneRefs <- MCZoneRefs
  Walls <- MCWalls
  Deltas <- MCDeltas
  CalShifts <- MCCalShifts
  ModUnits <- MCModUnits
  WeekStarts <- SimWeekStarts
  Overrides <- MCOverrides
  Weekdays <- SimWeekdays
SPECIFICATION Spec
CONSTRAINT Depth
INVARIANT Emit
INVARIANT AllWellFormed
INVARIANT PathIndependent
INVARIANT AddSubInverse
INVARIANT ModifiersOk
INVARIANT HistoryIndependent
INVARIANT NavOk
PROPERTY ConvPreserves
PROPERTY CopyStutters
PROPERTY SetKeeps
CHECK_DEADLOCK FALSE
