CONSTANTS
  Regs <- MCRegs
  ZoneRefs <- MCZoneRefs
  Walls <- MCWalls
  Deltas <- MCDeltas
  CalShifts <- MCCalShifts
  ModUnits <- MCModUnits
  WeekStarts <- SimWeekStarts
  Overrides <- MCOverrides
  Weekdays <- SimWeekdays
  RangeSteps <- MCRangeSteps
SPECIFICATION Spec
CONSTRAINT Depth
INVARIANT Emit
INVARIANT AllWellFormed
INVARIANT PathIndependent
INVARIANT AddSubInverse
INVARIANT ModifiersOk
INVARIANT HistoryIndependent
INVARIANT NavOk
INVARIANT ElapsedConsistent
PROPERTY ConvPreserves
PROPERTY CopyStutters
PROPERTY SetKeeps
PROPERTY AddMovesBy
CHECK_DEADLOCK FALSE
