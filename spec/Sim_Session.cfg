CONSTANTS
  Regs <- MCRegs
  ZoneRefs <- MCZoneRefs
  Walls <- MCWalls
  Deltas <- MCDeltas
  CalShifts <- MCCalShifts
  ModUnits <- MCModUnits
  WeekStarts <- SimWeekStarts
SPECIFICATION Spec
CONSTRAINT Depth
INVARIANT Emit
INVARIANT AllWellFormed
CHECK_DEADLOCK FALSE
