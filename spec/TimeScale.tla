------------------------------ MODULE TimeScale ------------------------------
(***************************************************************************)
(* Exact time arithmetic in limbs that stay below 2^31 (TLC integers are   *)
(* 32-bit and TLC raises an error on overflow, it never wraps).            *)
(*   DS   == <<day, sec>>        proleptic ordinal day, second of day      *)
(*   I3   == <<day, sec, us>>    an instant / a wall-clock reading         *)
(*   Dur3 == <<d, s, us>>        signed d, 0 <= s < 86400, 0 <= us < 10^6  *)
(*                               (exactly Python's timedelta normal form)  *)
(***************************************************************************)
EXTENDS Calendar

DSLe(a, b) == a[1] < b[1] \/ (a[1] = b[1] /\ a[2] <= b[2])
DSLt(a, b) == a[1] < b[1] \/ (a[1] = b[1] /\ a[2] < b[2])
\* add k seconds, |k| < 2*10^9
DSAdd(a, k) == LET t == a[2] + k IN <<a[1] + (t \div 86400), t % 86400>>

\* normalise any (d, s, us) with |s| < 2*10^9, |us| < 2*10^9
D3Norm(d, s, us) == LET s1 == s + (us \div 1000000)
                    IN <<d + (s1 \div 86400), s1 % 86400, us % 1000000>>
D3Zero == <<0, 0, 0>>
D3Add(a, b) == D3Norm(a[1] + b[1], a[2] + b[2], a[3] + b[3])
D3Neg(a) == D3Norm(-a[1], -a[2], -a[3])
D3Sub(a, b) == D3Add(a, D3Neg(b))
D3Lt(a, b) == a[1] < b[1] \/ (a[1] = b[1] /\ (a[2] < b[2] \/ (a[2] = b[2] /\ a[3] < b[3])))
D3Le(a, b) == a = b \/ D3Lt(a, b)
D3Sign(a) == IF a[1] < 0 THEN -1 ELSE IF a = D3Zero THEN 0 ELSE 1
D3Abs(a) == IF a[1] < 0 THEN D3Neg(a) ELSE a
\* from components that may have any sign; each |x| small enough that the products fit:
\* |h| < 500000, |mi| < 3*10^7, |s| < 2*10^9
D3Of(d, h, mi, s, us) == LET a == D3Norm(d, h * 3600, us)
                             b == D3Norm(0, mi * 60, 0)
                             c == D3Norm(0, s, 0)
                         IN D3Add(D3Add(a, b), c)

\* instants / wall readings
I3Le(a, b) == D3Le(a, b)
I3Lt(a, b) == D3Lt(a, b)
I3AddDur(i, d) == D3Add(i, d)
I3Diff(a, b) == D3Sub(a, b)      \* a - b as Dur3
I3AddSec(i, k) == LET p == DSAdd(<<i[1], i[2]>>, k) IN <<p[1], p[2], i[3]>>

\* wall-clock fields <<y, mo, d, h, mi, s, us>>  <->  I3
WallOf(i) == LET t == YMD(i[1]) IN <<t[1], t[2], t[3], i[2] \div 3600, (i[2] % 3600) \div 60, i[2] % 60, i[3]>>
I3OfWall(w) == <<Ord(w[1], w[2], w[3]), w[4] * 3600 + w[5] * 60 + w[6], w[7]>>
ValidWall(w) == /\ ValidYMD(w[1], w[2], w[3]) /\ w[4] \in 0..23 /\ w[5] \in 0..59 /\ w[6] \in 0..59
                /\ w[7] \in 0..999999
DSOf(i) == <<i[1], i[2]>>

\* Unix timestamp (whole seconds) of an instant as <<billions, rest>> is avoided: harness and
\* spec exchange instants as I3 only.  Day of the Unix epoch:
EpochDay == 719163

\* Dur3 * small integer n (|n| <= 4000) with |d| < 5*10^5: limb-wise, every product < 2^31
D3MulInt(a, n) == LET us == a[3] * n          \* < 4*10^9 ? no: a[3] < 10^6, n <= 2000 -> 2*10^9
                      cs == us \div 1000000
                      s  == a[2] * n + cs     \* 86399*2000 + 2000 < 2*10^8
                  IN <<a[1] * n + (s \div 86400), s % 86400, us % 1000000>>
=============================================================================
