-------------------------------- MODULE Trace --------------------------------
(***************************************************************************)
(* Trace validator.  The harness executes the REAL library and logs one     *)
(* event per public call: (op, arguments, projected pre-values, projected   *)
(* result or exception).  This module consumes the events of the file named *)
(* by PV_TRACE one per step and evaluates, for each, the specification's     *)
(* expectation with the operators of the Ops* modules (the same operators    *)
(* Session.tla's actions are made of).  Verdicts are TOTAL: every event is   *)
(* judged, a divergence names the failing clause and what the spec expected, *)
(* and validation continues with the next event.  Acceptance is by           *)
(* POSTCONDITION on the number of consumed events.                           *)
(*                                                                           *)
(* Output: one line per event, PrintT(ToJson([id, c, v])):                   *)
(*   c  classification labels computed by the spec (wall class, fold, ...)   *)
(*   v  failed clauses, << <<clause, expected>>, ... >>; empty = conforming  *)
(***************************************************************************)
EXTENDS OpsRange, OpsModifiers, OpsCalendar, OpsDuration, IsoForms, FormatTokens, TLCExt

T == JsonDeserialize(IOEnv.PV_TRACE)
VARIABLES l, nbad

ToSet(s) == {s[i] : i \in DOMAIN s}
V(cl, ok, exp) == IF ok THEN <<>> ELSE << <<cl, exp>> >>
R(c, v) == [c |-> c, v |-> v]
B(b) == IF b THEN "1" ELSE "0"
N(n) == IF n = 0 THEN "0" ELSE IF n = 1 THEN "1" ELSE "n"

ArrClause(name, arr, n, F(_)) == LET k == FirstDiff(arr, n, F) IN
   IF k = 0 THEN <<>> ELSE << <<name, <<k, IF k <= n THEN F(k) ELSE -1>> >> >>

\* logged DateTime `post` against the expected abstract value `exp`; cls = expected class name
CmpDTc(post, exp, cls) ==
  IF post.k # "dt" THEN << <<"kind", post.k>> >>
  ELSE V("class", post.cls = cls, cls)
       \o V("zone", ZRef(post.z) = exp.z, exp.z)
       \o V("wall", post.w = exp.w, exp.w)
       \o V("offset", post.off = OffOf(exp), OffOf(exp))
       \o (IF ZRef(post.z) = exp.z /\ ValidWall(post.w)
           THEN V("instant", InstOf(DT(post.z, post.w, post.f)) = InstOf(exp), InstOf(exp))
                \o V("valid-local-time", RoundTrips(DT(post.z, post.w, post.f)), "survives a round trip through UTC")
           ELSE <<>>)
CmpDT(post, exp) == CmpDTc(post, exp, "DateTime")
\* expected outcome may be an exception
CmpOut(post, exp, cls) ==
  IF IsExc(exp) THEN (IF post.k = "exc" THEN V("exception-class", exp.names \subseteq ToSet(post.names), exp.names)
                                            \* "NonExistingTime exactly for skipped and AmbiguousTime exactly for repeated":
                                            \* what is raised for the one is not also an instance of the other
                                            \o V("exception-exactly", ({"NonExistingTime", "AmbiguousTime"} \ exp.names) \cap ToSet(post.names) = {},
                                                 exp.names)
                      ELSE << <<"must-raise", exp.names>> >>)
  ELSE IF post.k = "exc" THEN << <<"unexpected-exception", post.names>> >>
  ELSE CmpDTc(post, exp, cls)

Src(e) == LET p == e.pre[1] IN DT(p.z, p.w, p.f)
WallLabel(v) == <<ClassOf(v), B(v.f = 1)>>

\* ---- C01 -----------------------------------------------------------------------------
J_in_tz(e) == LET s == Src(e) x == InTz(s, e.a.tz) IN
   R(<<"src", ClassOf(s), "dst", ClassOf(x), B(x.f = 1)>>, CmpDT(e.post, x))
J_from_timestamp(e) == LET x == FromTimestamp(e.a.i, e.a.tz) IN
   R(<<"dst", ClassOf(x), B(x.f = 1)>>, CmpDT(e.post, x))
J_int_timestamp(e) == LET s == Src(e) IN
   R(<<"src", ClassOf(s)>>, V("int-timestamp", e.post.v = IntTimestamp(s), IntTimestamp(s)))
J_timestamp(e) == LET s == Src(e) IN
   R(<<"src", ClassOf(s)>>, V("timestamp", e.post.v = InstOf(s), InstOf(s)))
\* instance() of a native aware datetime; a.named: its tzinfo carries an IANA key.
\* pytz / dateutil carry their OWN copy of the tz data (pytz rounds LMT offsets, versions differ):
\* only sources whose offset is one the system tz database also assigns to that wall time are judged.
J_instance(e) == LET i == NativeInst(e.a.w, e.a.off) IN
   IF e.a.named /\ e.a.off \notin {Pep(Z(e.a.tz), WDS(e.a.w), 0), Pep(Z(e.a.tz), WDS(e.a.w), 1)}
   THEN R(<<e.a.kind, "source-data-differs">>, <<>>)
   ELSE IF e.a.named
   THEN LET x == FromInst(e.a.tz, i) IN R(<<e.a.kind, "named", ClassOf(x), B(x.f = 1), B(e.a.f = 1)>>, CmpDT(e.post, x))
   ELSE R(<<e.a.kind, "offset-only">>,
          IF e.post.k # "dt" THEN << <<"kind", e.post.k>> >>
          ELSE V("class", e.post.cls = "DateTime", "DateTime")
               \o V("offset", e.post.off = e.a.off, e.a.off)
               \o V("instant", I3AddSec(I3OfWall(e.post.w), -e.post.off) = i, i))

\* ---- C02 -----------------------------------------------------------------------------
CreateLabel(zr, w, f, strict) == <<(IF zr.n = "naive" THEN "unique" ELSE Classify(Z(zr), WDS(w))), B(f = 1), B(strict)>>
\* entry points without a fold / strict parameter use the documented defaults (fold = 1, lenient)
DefaultOnly == {"tz_datetime", "local", "parse_tz"}
\* Timezone.convert() of a NATIVE naive datetime returns a native datetime, everything else a DateTime
EntryClass(en) == IF en \in {"tz_convert", "tz_datetime"} THEN "datetime" ELSE "DateTime"
J_create(e) == LET f == IF e.a.entry \in DefaultOnly THEN 1 ELSE e.a.f
                   st == IF e.a.entry \in DefaultOnly THEN FALSE ELSE e.a.strict
               IN R(<<e.a.entry>> \o CreateLabel(e.a.tz, e.a.w, f, st),
                    CmpOut(e.post, Create(e.a.tz, e.a.w, f, st), EntryClass(e.a.entry)))
J_set(e) == LET s == Src(e) x == SetFields(s, e.a.o) m == Merge(s.w, e.a.o) IN
   R(<<e.a.entry>> \o CreateLabel(s.z, m, s.f, FALSE), CmpOut(e.post, x, "DateTime"))
J_replace(e) == LET s == Src(e) x == ReplaceFields(s, e.a.o, e.a.f) m == Merge(s.w, e.a.o) IN
   R(<<"replace">> \o CreateLabel(s.z, m, (IF e.a.f = -1 THEN s.f ELSE e.a.f), FALSE), CmpOut(e.post, x, "DateTime"))
J_naive_in_tz(e) == LET s == Src(e) IN
   R(<<"naive_in_tz">> \o CreateLabel(e.a.tz, s.w, 1, FALSE), CmpOut(e.post, NaiveInTz(s, e.a.tz), "DateTime"))

\* ---- C03 -----------------------------------------------------------------------------
J_add_fixed(e) == LET s == Src(e)
                      d0 == D3Of(0, e.a.h, e.a.mi, e.a.s, e.a.us)
                      d == IF e.a.entry \in {"subtract", "minus_td"} THEN D3Neg(d0) ELSE d0
                      tgt == I3AddDur(InstOf(s), d)
                  IN IF ~InRange(tgt) THEN R(<<"out-of-range">>, <<>>)
                     ELSE LET x == AddFixed(s, d) IN
                          R(<<e.a.entry, "src", ClassOf(s), "dst", ClassOf(x), B(OffOf(s) # OffOf(x))>>,
                            CmpOut(e.post, x, "DateTime"))

\* ---- C04 -----------------------------------------------------------------------------
\* entry points that shift backwards by the given components
Backward == {"subtract", "minus_dur", "plus_neg_dur", "minus_td"}
\* Operator paths.  A Duration REPORTS years and months as given and the rest re-normalised from its total with one
\* sign (C09: duration(days=1, hours=-1) is 23 hours of elapsed time).  -d is built from the reported components,
\* so dt - d, dt + (-d) and dt.subtract(d's components) shift by the reported components; for dt + d the property's
\* "shifting weeks, days and time units" can be read on the reported components or on the amounts d was built from
\* (what the implementation keeps as d's signature): either reading is accepted, they agree for one-signed amounts.
DurEntries == {"plus_dur", "minus_dur", "plus_neg_dur", "radd_dur"}
DurC(c) == LET b == Breakdown(RestOf([y |-> c.y, mo |-> c.mo, w |-> c.w, d |-> c.d, h |-> c.h, mi |-> c.mi, s |-> c.s,
                                      ms |-> 0, us |-> c.us]))
           IN [y |-> c.y, mo |-> c.mo, w |-> b[1], d |-> b[2], h |-> b[3], mi |-> b[4], s |-> b[5], us |-> b[6]]
J_add_cal(e) ==
  LET s == Src(e)
      en == e.a.entry
      norm == IF en \in DurEntries THEN DurC(e.a.c) ELSE e.a.c
      c0 == IF en \in {"minus_dur", "plus_neg_dur"} THEN norm ELSE e.a.c
      c == IF en \in Backward THEN NegC(c0) ELSE c0
      two == en \in {"plus_dur", "radd_dur"} /\ norm # e.a.c
  IN IF ~CalInRange(s.w, c) \/ (two /\ ~CalInRange(s.w, norm)) THEN R(<<"out-of-range">>, <<>>)
     ELSE LET x == Add(s, c)
              tgt == IF HasCal(c) /\ ~IsNaive(s) THEN Classify(Z(s.z), WDS(AddCalWall(s.w, c))) ELSE "unique"
              v1 == CmpOut(e.post, x, "DateTime")
          IN R(<<en, B(HasCal(c)), B(c.y # 0 \/ c.mo # 0), "renormalised", B(norm # e.a.c), "target", tgt, "clamped",
                 B(ShiftedYM(s.w, c)[3] # s.w[3]), "offchg", B(OffOf(s) # OffOf(x))>>,
               IF v1 = <<>> \/ ~two THEN v1
               ELSE IF CmpOut(e.post, Add(s, norm), "DateTime") = <<>> THEN <<>> ELSE v1)
J_add_cal_date(e) ==
  LET w == e.pre[1].w
      c == IF e.a.entry \in Backward THEN NegC(e.a.c) ELSE e.a.c
  IN IF ~CalInRange(<<w[1], w[2], w[3], 0, 0, 0, 0>>, c) THEN R(<<"out-of-range">>, <<>>)
     ELSE LET x == AddCalDate(w, c) IN
          R(<<e.a.entry, "clamped", B(ShiftedYM(w, c)[3] # w[3])>>,
            IF e.post.k = "exc" THEN << <<"unexpected-exception", e.post.names>> >>
            ELSE IF e.post.k # "date" THEN << <<"kind", e.post.k>> >>
            ELSE V("class", e.post.cls = "Date", "Date") \o V("date", e.post.w = x, x))

\* ---- C05 -----------------------------------------------------------------------------
\* entry points that return the magnitude
Magnitude == {"interval_abs", "diff_default", "abs", "neg_abs"}
PClass(v) == IF IsDate(v) THEN "date" ELSE ClassOf(DT(v.z, v.w, v.f))
J_iv_len(e) ==
  LET a == e.pre[1]  b == e.pre[2]  p == e.post
      el == Elapsed(a, b)
      want == IF e.a.entry \in Magnitude THEN D3Abs(el) ELSE el
  IN IF PClass(a) = "skipped" \/ PClass(b) = "skipped" THEN R(<<"ill-formed-endpoint">>, <<>>) ELSE
     R(<<e.a.entry, e.a.rel, PClass(a), PClass(b), N(D3Sign(el) + 1), B(Exact(el))>>,
       IF p.k = "exc" THEN << <<"unexpected-exception", p.names>> >>
       ELSE IF p.k # "iv" THEN << <<"kind", p.k>> >>
       ELSE V("class", p.cls = "Interval", "Interval")
            \o (IF Exact(el)
                THEN V("length", p.r3 = want, want)
                     \o V("in_seconds", p.ins = <<IF MagSec(want) = <<0, 0>> THEN 0 ELSE D3Sign(want), MagSec(want)>>, MagSec(want))
                     \o V("in_minutes", p.inm = <<IF MagMin(want) = <<0, 0>> THEN 0 ELSE D3Sign(want), MagMin(want)>>, MagMin(want))
                     \o V("in_hours", p.inh = <<IF MagHour(want) = 0 THEN 0 ELSE D3Sign(want), MagHour(want)>>, MagHour(want))
                ELSE V("length-64us", Within64(p.r3, want), want)))

\* relations derived from the elapsed time: closest / farthest of two candidates, the average of two values,
\* same calendar day, same (month, day).  Ties between the candidates are not judged; the average may round
\* either way (twice the result is within one microsecond - one day for Dates - of the sum).
SamePt(post, v) == IF IsDate(v) THEN post.k = "date" /\ post.w = v.w
                   ELSE post.k = "dt" /\ ZRef(post.z) = ZRef(v.z) /\ post.w = v.w /\ PointOf(post) = PointOf(v)
J_rel(e) ==
  LET a == e.pre[1]  b == e.pre[2]  p == e.post  m == e.a.m
      \* the receiver and a candidate of the same zone both inside a repeated hour (finding C05-magnitude-inside-overlap)
      OvPair(x) == PClass(a) = "repeated" /\ PClass(x) = "repeated" /\ ZRef(x.z) = ZRef(a.z)
      cls == <<m, a.k>> \o (IF Len(e.pre) = 3 THEN <<PClass(a), PClass(b), PClass(e.pre[3])>> ELSE <<PClass(a), PClass(b)>>)
             \o <<"overlap-pair", B(\E i \in 2..Len(e.pre) : OvPair(e.pre[i]))>>
  IN IF \E i \in 1..Len(e.pre) : PClass(e.pre[i]) = "skipped" THEN R(<<"ill-formed-endpoint">>, <<>>)
     ELSE IF p.k = "exc" THEN R(cls, << <<"x-unexpected-exception", p.names>> >>)
     ELSE CASE m \in {"closest", "farthest"} ->
                 LET c == e.pre[3]  db == D3Abs(Elapsed(a, b))  dc == D3Abs(Elapsed(a, c))
                     want == IF (m = "closest") = D3Lt(db, dc) THEN b ELSE c
                 IN IF db = dc THEN R(cls \o <<"tie">>, <<>>)
                    \* the ranking uses abs(self - candidate), which finding C05-magnitude-inside-overlap makes wrong here
                    ELSE IF OvPair(b) \/ OvPair(c) THEN R(cls \o <<"derived-from-C05-magnitude-inside-overlap">>, <<>>)
                    ELSE R(cls \o <<"gap", (IF D3Abs(D3Sub(db, dc)) = <<0, 0, D3Abs(D3Sub(db, dc))[3]>> THEN "sub-second" ELSE "wide")>>,
                           V("x-" \o m, SamePt(p, want), want.w))
            [] m = "average" ->
                 LET el == Elapsed(a, b)
                     got == IF p.k \in {"dt", "date"} THEN Elapsed(a, p) ELSE <<0, 0, 0>>
                     err == D3Sub(D3MulInt(got, 2), el)
                     unit == IF IsDate(a) THEN <<1, 0, 0>> ELSE <<0, 0, 1>>
                 IN R(cls \o <<N(D3Sign(el) + 1), B(Exact(el))>>,
                      IF ~Exact(el) THEN <<>>
                      ELSE V("x-average-kind", p.k = a.k, a.k)
                           \o V("x-average", D3Le(D3Abs(err), unit), el)
                           \o (IF IsDate(a) THEN <<>> ELSE V("x-average-zone", p.k = "dt" /\ ZRef(p.z) = ZRef(a.z), a.z)))
            [] m = "is_same_day" ->
                 R(cls, V("x-is_same_day", p.v = (<<a.w[1], a.w[2], a.w[3]>> = <<b.w[1], b.w[2], b.w[3]>>), "same wall-clock date"))
            [] m = "is_anniversary" ->
                 R(cls, V("x-is_anniversary", p.v = (<<a.w[2], a.w[3]>> = <<b.w[2], b.w[3]>>), "same month and day")
                        \o V("x-is_birthday", p.v2 = p.v, "alias"))

\* ---- C06 -----------------------------------------------------------------------------
ValidPoint(v, cmp) == /\ cmp.k = "dt" /\ ZRef(cmp.z) = ZRef(v.z) /\ cmp.w = v.w
                      /\ InstOf(DT(cmp.z, cmp.w, cmp.f)) = InstOf(DT(v.z, v.w, v.f))
J_iv_comp(e) ==
  LET a == e.pre[1]  b == e.pre[2]  p == e.post
      dates == IsDate(a)
      fwd == IF dates THEN I3Le(DayI3(a), DayI3(b)) ELSE I3Le(PointOf(a), PointOf(b))
      lo == IF fwd THEN a ELSE b
      hi == IF fwd THEN b ELSE a
      samez == dates \/ ZRef(a.z) = ZRef(b.z)
      \* frame in which the decomposition is stated: the common zone, else UTC
      low == IF samez THEN Wall7(lo) ELSE InTz(DT(lo.z, lo.w, lo.f), UtcRef).w
      hiw == IF samez THEN Wall7(hi) ELSE InTz(DT(hi.z, hi.w, hi.f), UtcRef).w
      \* the property's premise, evaluated by the spec; spans beyond 2^33 s are outside the float-exact
      \* range in which Interval can report seconds and microseconds at all (soundness rule 3)
      premise == /\ Exact(Elapsed(a, b))
                 /\ PClass(lo) # "skipped" /\ PClass(hi) # "skipped"
                 /\ (dates \/ ~samez \/ IsNaive(a)
                     \/ (OffOf(DT(lo.z, lo.w, lo.f)) = OffOf(DT(hi.z, hi.w, hi.f)) /\ PClass(hi) = "unique"))
      sg == IF fwd THEN 1 ELSE -1
      c == p.c
      mag == <<sg * c[1], sg * c[2], sg * (7 * c[3] + c[4]), sg * c[5], sg * c[6], sg * c[7], sg * c[8]>>
      H(h) == <<sg * h[1], sg * h[2], sg * h[3], sg * h[4], sg * h[5], sg * h[6], sg * h[7]>>
      alg == AlgPD(low, hiw)
      \* both end-points on one wall-clock date with different UTC offsets: the helpers then convert to UTC by hand
      \* (their `total_days == 0` path), the compiled one with the carries of finding C06-rust-cross-zone
      sdo == ~dates /\ ~IsNaive(a) /\ <<a.w[1], a.w[2], a.w[3]>> = <<b.w[1], b.w[2], b.w[3]>>
             /\ OffOf(DT(a.z, a.w, a.f)) # OffOf(DT(b.z, b.w, b.f))
      \* the compiled helper converts an end-point to UTC by hand when the zones are named differently (and the offset
      \* is not zero) or when both end-points share the wall date: "ok" when every such conversion is right, "bad" otherwise
      sameDay == ~dates /\ <<a.w[1], a.w[2], a.w[3]>> = <<b.w[1], b.w[2], b.w[3]>>
      Shifts(v) == ~dates /\ ~IsNaive(DT(v.z, v.w, v.f)) /\ ((~samez /\ OffOf(DT(v.z, v.w, v.f)) # 0) \/ sameDay)
      rshift == IF ~Shifts(a) /\ ~Shifts(b) THEN "-"
                ELSE IF (Shifts(a) => RustShiftOK(DT(a.z, a.w, a.f))) /\ (Shifts(b) => RustShiftOK(DT(b.z, b.w, b.f))) THEN "ok" ELSE "bad"
  IN R(<<e.a.rel, B(fwd), "br", alg.br, B(alg.borrow), "premise", B(premise), "lo", PClass(lo), "hi", PClass(hi), "rust-shift", rshift, "sameday-offchg",
         (IF ~sdo THEN "0" ELSE IF Abs(OffOf(DT(a.z, a.w, a.f)) - OffOf(DT(b.z, b.w, b.f))) >= 43200 THEN "dateline" ELSE "1"),
         \* one instant written on two wall-clock dates (the helpers' total_days slot is taken from the wall dates)
         "same-instant-two-dates", B(~dates /\ PointOf(a) = PointOf(b) /\ <<a.w[1], a.w[2], a.w[3]>> # <<b.w[1], b.w[2], b.w[3]>>)>>,
       IF p.k = "exc" THEN << <<"unexpected-exception", p.names>> >>
       ELSE V("in_months", p.in_months = 12 * c[1] + c[2], 12 * c[1] + c[2])
            \o V("backends-agree", p.py = p.rs, p.py)
            \o (IF ~premise THEN <<>>
                ELSE V("py-helper", ValidDecomposition(low, hiw, H(p.py)), hiw)
                     \o V("rs-helper", ValidDecomposition(low, hiw, H(p.rs)), hiw)
                     \o V("ranges", InRanges(mag) /\ Abs(c[4]) < 7, "canonical ranges, sign of the interval")
                     \o V("rebuilds", Rebuilds(low, hiw, mag), hiw)
                     \o (IF samez /\ ~dates /\ fwd
                         THEN V("start-plus-interval", ValidPoint(b, p.sum), b.w)
                              \o V("add-components", ValidPoint(b, p.addc), b.w)
                         ELSE <<>>)))

\* ---- C12 -----------------------------------------------------------------------------
J_start_end(e) ==
  LET end == e.op = "end_of"  u == e.a.unit  cfg == e.a.cfg IN
  IF e.pre[1].k = "date"
  THEN LET w == e.pre[1].w  x == IF end THEN EndOfDate(w, u, cfg) ELSE StartOfDate(w, u, cfg) IN
       R(<<"date", u, N(cfg.ws)>>,
         IF e.post.k = "exc" THEN << <<"unexpected-exception", e.post.names>> >>
         ELSE IF e.post.k # "date" THEN << <<"kind", e.post.k>> >>
         ELSE V("class", e.post.cls = "Date", "Date") \o V("date", e.post.w = x, x))
  ELSE LET s == Src(e)
           x == IF end THEN EndOfRef(s, u, cfg) ELSE StartOfRef(s, u, cfg)
           bw == IF end THEN UnitEndW(u, s.w, cfg) ELSE UnitStartW(u, s.w, cfg)
           bc == BoundaryClass(s, u, cfg, end)
           \* a skipped boundary is "aligned" when the gap starts exactly at the unit's first reading
           \* (resp. ends right after its last one): there the documented shift lands on the right instant
           al == IF bc # "skipped" THEN "-"
                 ELSE LET z == EZ(Z(s.z), YearOf(WDS(bw)[1]))  k == Idx(z, 1, WDS(bw))
                      IN IF end THEN B(TrKey(z, 0, k) = DSAdd(WDS(bw), 1)) ELSE B(TrKey(z, 1, k) = WDS(bw))
           xday == IF IsNaive(s) THEN "unique" ELSE Classify(Z(s.z), <<Ord(s.w[1], s.w[2], s.w[3]), 0>>)
       IN IF ClassOf(s) = "skipped" THEN R(<<"ill-formed-source">>, <<>>) ELSE
          R(<<"dt", u, (IF end THEN "end" ELSE "start"), "boundary", bc, "aligned", al, "fold", B(s.f = 1),
              "x", ClassOf(s), "xday", xday, e.a.how>>
            \o (IF u = "week" /\ ~IsNaive(s)
                    /\ \E dd \in -7..7 : Classify(Z(s.z), <<Ord(s.w[1], s.w[2], s.w[3]) + dd, 43200>>) = "skipped"
                THEN <<"week-contains-skipped-day">> ELSE <<>>)
            \* the boundary of the unit lies on the value's own calendar day (no walk over days is needed to reach it)
            \o <<"boundary-on-own-day", B(<<bw[1], bw[2], bw[3]>> = <<s.w[1], s.w[2], s.w[3]>>)>>,
            CmpOut(e.post, x, "DateTime"))

\* ---- C16 -----------------------------------------------------------------------------
\* expected: midnight (or the kept time) of ordinal day n in the zone of s.  An ambiguous target may be
\* either occurrence; a skipped one is normalised by the construction rules (default fold).
CmpAtDay(post, s, n, keep) ==
  LET w == IF keep THEN DateW(n, s.w[4], s.w[5], s.w[6], s.w[7]) ELSE DateW(n, 0, 0, 0, 0)
      c == IF IsNaive(s) THEN "unique" ELSE Classify(Z(s.z), WDS(w))
  IN IF post.k = "exc" THEN << <<"unexpected-exception", post.names>> >>
     ELSE IF post.k # "dt" THEN << <<"kind", post.k>> >>
     ELSE \* the calendar day of the result, on its own: whatever happens to the time of day on anomalous days
          V("date", <<post.w[1], post.w[2], post.w[3]>> = <<w[1], w[2], w[3]>>, <<w[1], w[2], w[3]>>) \o
          IF c = "repeated"
          THEN V("class", post.cls = "DateTime", "DateTime") \o V("zone", ZRef(post.z) = s.z, s.z)
               \o V("wall", post.w = w, w) \o V("offset", post.off = OffOf(DT(s.z, post.w, post.f)), "tz database")
          ELSE CmpDT(post, Construct(s.z, w, 1))
TargetClass(s, n, keep) == IF IsNaive(s) THEN "unique"
   ELSE Classify(Z(s.z), WDS(IF keep THEN DateW(n, s.w[4], s.w[5], s.w[6], s.w[7]) ELSE DateW(n, 0, 0, 0, 0)))
CmpDate(post, n) == IF post.k = "exc" THEN << <<"unexpected-exception", post.names>> >>
                    ELSE IF post.k # "date" THEN << <<"kind", post.k>> >>
                    ELSE V("class", post.cls = "Date", "Date") \o V("date", post.w = YMD(n), YMD(n))
J_nav(e) ==
  LET p == e.pre[1]  isd == p.k = "date"
      n0 == Ord(p.w[1], p.w[2], p.w[3])
      wd0 == IF e.a.wd = -1 THEN Dow(n0) ELSE e.a.wd
      keep == ~isd /\ e.a.keep
      n == IF e.op = "next" THEN NextOrd(n0, wd0) ELSE PrevOrd(n0, wd0)
  IN IF n < 400 \/ n > 3651600 THEN R(<<"out-of-range">>, <<>>)
     ELSE IF isd THEN R(<<"date", e.op, N(Abs(n - n0) - 1)>>, CmpDate(e.post, n))
     ELSE LET s == Src(e) IN
          R(<<"dt", e.op, B(keep), "target", TargetClass(s, n, keep), "fold", B(s.f = 1),
              "path-anomaly", (IF IsNaive(s) THEN "0" ELSE B(MidnightAnomaly(Z(s.z), Min(n0, n), Max(n0, n)) \/ ClassOf(s) # "unique")),
              "skipped-day", (IF IsNaive(s) THEN "0" ELSE B(SkippedDay(Z(s.z), Min(n0, n) - 1, Max(n0, n) + 1)))>>,
            CmpAtDay(e.post, s, n, keep))
\* the implementation walks day by day from the first day of the unit: any skipped/repeated midnight
\* between the first day of the unit and the first day after it (or an ill-placed source) taints the path
PathLabel(s, unit, y, m) == IF IsNaive(s) THEN "0"
   ELSE B(ClassOf(s) # "unique" \/ MidnightAnomaly(Z(s.z), UnitFirst(unit, y, m) - 1, UnitLast(unit, y, m) + 8))
J_of(e) ==
  LET p == e.pre[1]  isd == p.k = "date"  unit == e.a.unit  wd == e.a.wd
      y == p.w[1]  m == p.w[2]
      n == CASE e.op = "first_of" -> FirstOfOrd(unit, y, m, wd)
             [] e.op = "last_of" -> LastOfOrd(unit, y, m, wd)
             [] e.op = "nth_of" -> NthOfOrd(unit, y, m, e.a.n, wd)
      lab == <<(IF isd THEN "date" ELSE "dt"), e.op, unit, B(n = 0)>>
  IN IF n = 0
     THEN R(lab \o (IF isd THEN <<>> ELSE <<"path-anomaly", PathLabel(Src(e), unit, y, m)>>), IF e.post.k = "exc" THEN V("exception-class", "PendulumException" \in ToSet(e.post.names), "PendulumException")
                 ELSE << <<"must-raise", "PendulumException">> >>)
     ELSE IF isd THEN R(lab, CmpDate(e.post, n))
     ELSE LET s == Src(e) IN
          R(lab \o <<"target", TargetClass(s, n, FALSE), "fold", B(s.f = 1), "path-anomaly", PathLabel(s, unit, y, m)>>,
            CmpAtDay(e.post, s, n, FALSE))

\* ---- C09 -----------------------------------------------------------------------------
CompsOf(p) == <<p.weeks, p.remaining_days, p.hours, p.minutes, p.remaining_seconds, p.microseconds>>
FTol(t) == 2 + D3Abs(t)[1] \div 10000
J_dur_new(e) ==
  LET a == e.a.args  p == e.post
      t == D3OfArgs(a)
      r == RestOf(a)
  IN R(<<N(D3Sign(r) + 1), B(a.y # 0 \/ a.mo # 0), B(FloatExact(t) /\ FloatExact(r)), e.a.how>>,
       IF ~(FloatExact(t) /\ FloatExact(r)) THEN <<>>
       ELSE IF p.k = "exc" THEN << <<"unexpected-exception", p.names>> >>
       ELSE IF p.k # "dur" THEN << <<"kind", p.k>> >>
       ELSE V("class", p.cls = "Duration", "Duration")
            \o V("timedelta", p.r3 = t, t)
            \o V("years-months", <<p.years, p.months>> = <<a.y, a.mo>>, <<a.y, a.mo>>)
            \o V("components", CompsOf(p) = Breakdown(r), Breakdown(r))
            \o V("total_seconds", p.ts = t, t)
            \o V("as_timedelta", p.atd = t, t)
            \* total_x() = total_seconds() / unit in floating point: consistent within the float's relative precision
            \o V("total_minutes", Near(p.tmi, t, FTol(t)), t) \o V("total_hours", Near(p.th, t, FTol(t)), t)
            \o V("total_days", Near(p.td, t, FTol(t)), t) \o V("total_weeks", Near(p.tw, t, FTol(t)), t)
            \o V("in_seconds", p.ins = TruncSec(t), TruncSec(t)) \o V("in_minutes", p.inm = TruncMin(t), TruncMin(t))
            \o V("in_hours", p.inh = TruncHour(t), TruncHour(t)) \o V("in_days", p.ind = TruncDay(t), TruncDay(t))
            \o V("in_weeks", p.inw = TruncWeek(t), TruncWeek(t))
            \o (IF e.a.how = "rebuilt" /\ FloatExact(e.a.orig.r3)
                    /\ FloatExact(D3Sub(e.a.orig.r3, <<365 * e.a.orig.years + 30 * e.a.orig.months, 0, 0>>))
                THEN V("rebuild", p.r3 = e.a.orig.r3 /\ CompsOf(p) = CompsOf(e.a.orig)
                                                          /\ <<p.years, p.months>> = <<e.a.orig.years, e.a.orig.months>>,
                                               e.a.orig.r3)
                ELSE <<>>))

\* ---- C10 -----------------------------------------------------------------------------
\* operands: x = e.pre[1] (left), y = e.pre[2] (right); each a duration/timedelta projection, or a scalar in e.a
OpD3(v) == v.r3
IsDurClass(p) == p.k = "dur" /\ p.cls = "Duration"
CmpDur(p, want) == IF p.k = "exc" THEN << <<"unexpected-exception", p.names>> >>
                   ELSE IF p.k \notin {"dur", "td"} THEN << <<"kind", p.k>> >>
                   ELSE V("length", p.r3 = want, want)
TypeDur(p, must) == IF must /\ p.k \in {"dur", "td"} THEN V("type", p.k = "dur" /\ p.cls = "Duration", "Duration") ELSE <<>>
J_dur_op(e) ==
  LET o == e.a.o  p == e.post
      x == e.pre[1]
      durLeft == x.k = "dur"
      lab == <<o, x.k, (IF Len(e.pre) > 1 THEN e.pre[2].k ELSE "scalar")>>
  IN CASE o = "neg" -> R(lab, CmpDur(p, D3Neg(x.r3)) \o TypeDur(p, TRUE)
                            \o (IF p.k = "dur" THEN V("years-months", <<p.years, p.months>> = <<-x.years, -x.months>>, <<-x.years, -x.months>>) ELSE <<>>))
       [] o = "abs" -> R(lab, CmpDur(p, D3Abs(x.r3)))
       [] o \in {"add", "radd"} -> R(lab, CmpDur(p, D3Add(x.r3, e.pre[2].r3)) \o TypeDur(p, TRUE))
       [] o = "sub" -> R(lab, CmpDur(p, D3Sub(x.r3, e.pre[2].r3)) \o TypeDur(p, durLeft))
       \* integer scaling is exact at every magnitude (the label marks products of 2^31 s = 24855 days and more, where
       \* the former float product of total_seconds() - two roundings, 1.5 ulp - lost a microsecond: fixed in 05be55b)
       [] o \in {"mul_int", "rmul_int"} ->
            R(lab \o <<B(x.years # 0 \/ x.months # 0), "float-exact", B(D3Abs(D3MulInt(x.r3, e.a.n))[1] < 24855)>>,
              IF x.years # 0 \/ x.months # 0
              THEN (IF p.k = "exc" THEN << <<"unexpected-exception", p.names>> >> ELSE
                    V("years-months", <<p.years, p.months>> = <<x.years * e.a.n, x.months * e.a.n>>, <<x.years * e.a.n, x.months * e.a.n>>)
                    \o TypeDur(p, TRUE))
              ELSE CmpDur(p, D3MulInt(x.r3, e.a.n)) \o TypeDur(p, TRUE))
       [] o \in {"mul_float", "rmul_float"} -> R(lab, CmpDur(p, D3MulRatio(x.r3, e.a.num, e.a.den)) \o TypeDur(p, TRUE))
       \* any float factor f = +-fa / 2^fe (exact, as_integer_ratio): the product is the exact rational rounded half to even,
       \* computed in arbitrary precision
       [] o \in {"mul_floatx", "rmul_floatx"} ->
            LET mag == D3Abs(x.r3)
                secs == BNAdd(BNMulSmall(BNOfInt(mag[1]), 86400), BNOfInt(mag[2]))
                us == BNAdd(BNMulSmall(BNMulSmall(secs, 1000), 1000), BNOfInt(mag[3]))
                prod == BNShiftRound(BNMul(us, BNOfDigits(e.a.fa)), e.a.fe, FALSE)
                d1 == BNDivSmall(prod, 1000)   d2 == BNDivSmall(d1.q, 1000)   d3 == BNDivSmall(d2.q, 86400)
                days == BNToInt(d3.q)
                res == <<days, d3.r, d2.r * 1000 + d1.r>>
                neg == (D3Sign(x.r3) < 0) # e.a.fneg
            IN IF days < 0 \/ days > 900000000 THEN R(lab \o <<"out-of-range">>, <<>>)
               ELSE R(lab \o <<"float-factor">>, CmpDur(p, IF neg THEN D3Neg(res) ELSE res) \o TypeDur(p, TRUE))
       [] o = "truediv_int" -> R(lab, CmpDur(p, D3DivRHE(x.r3, e.a.n)) \o TypeDur(p, TRUE))
       [] o = "truediv_float" -> R(lab, CmpDur(p, D3DivRatio(x.r3, e.a.num, e.a.den)) \o TypeDur(p, TRUE))
       [] o = "floordiv_int" -> R(lab, CmpDur(p, D3FloorDivInt(x.r3, e.a.n)) \o TypeDur(p, TRUE))
       [] o \in {"floordiv_dur", "mod_dur", "divmod_dur", "truediv_dur"} ->
            LET y == e.pre[2] IN
            \* the statement speaks of Durations without years or months: such operands are executed (they are part of a
            \* program's history) but not judged
            IF (y.k = "dur" /\ (y.years # 0 \/ y.months # 0)) \/ (x.k = "dur" /\ (x.years # 0 \/ x.months # 0))
            THEN R(lab \o <<"years-months-operand">>, <<>>)
            ELSE IF ~Comparable(x.r3, y.r3) \/ D3Sign(y.r3) = 0 THEN R(lab \o <<"out-of-limb-range">>, <<>>)
            ELSE LET q == QuoOf(x.r3, y.r3)  rm == RemOf(x.r3, y.r3) IN
                 R(lab,
                   IF p.k = "exc" THEN << <<"unexpected-exception", p.names>> >>
                   ELSE CASE o = "floordiv_dur" -> V("quotient", p.k = "int" /\ p.n = q, q)
                          [] o = "mod_dur" -> CmpDur(p, rm) \o TypeDur(p, TRUE)
                          [] o = "divmod_dur" -> V("quotient", p.q.k = "int" /\ p.q.n = q, q) \o CmpDur(p.r, rm) \o TypeDur(p.r, TRUE)
                          [] o = "truediv_dur" ->
                               \* the driver only divides where the exact quotient is a small dyadic rational
                               (IF p.k # "float" THEN << <<"kind", p.k>> >>
                                ELSE LET a1 == IF FitsUs(x.r3) /\ FitsUs(y.r3) THEN UsOf(x.r3) ELSE SecOf(x.r3)
                                         b1 == IF FitsUs(x.r3) /\ FitsUs(y.r3) THEN UsOf(y.r3) ELSE SecOf(y.r3)
                                     IN IF Abs(a1) > 1000000 \/ Abs(b1) > 1000000 \/ p.den > 2048 \/ Abs(p.num) > 2000000 THEN <<>>
                                        ELSE V("ratio", p.num * b1 = p.den * a1, <<a1, b1>>)))
       [] o = "cmp" -> LET y == e.pre[2]  xs == x.r3  ys == y.r3 IN
            R(lab, V("eq", p.eq = (xs = ys), xs = ys) \o V("lt", p.lt = D3Lt(xs, ys), D3Lt(xs, ys))
                   \o V("le", p.le = D3Le(xs, ys), D3Le(xs, ys)) \o V("gt", p.gt = D3Lt(ys, xs), D3Lt(ys, xs))
                   \o V("ge", p.ge = D3Le(ys, xs), D3Le(ys, xs))
                   \o V("hash", (xs = ys) => p.hash_eq, "equal values hash equal")
                   \o V("hash-native", p.hash_native, "hash(Duration) = hash(timedelta of the same length)"))

\* an Interval used as a duration (C05 x C10): arithmetic acts on its exact length and returns a Duration,
\* negation and abs return Intervals over the same end-points, whole-day totals truncate toward zero
J_iv_arith(e) ==
  LET a == e.pre[1]  b == e.pre[2]  p == e.post  o == e.a.o
      el0 == Elapsed(a, b)
      el == IF e.a.abs THEN D3Abs(el0) ELSE el0
      td == <<e.a.d, e.a.s, e.a.us>>
      lab == <<o, a.k, B(e.a.abs), N(D3Sign(el0) + 1), PClass(a), PClass(b)>>
      \* one constant offset on both sides: the wall-clock day count is the elapsed day count
      plain == IsDate(a) \/ IsNaive(a) \/ (a.z.n \in {"", "UTC"} /\ ZRef(a.z) = ZRef(b.z))
      IvLen(q, want) == IF q.k = "exc" THEN << <<"unexpected-exception", q.names>> >>
                        ELSE IF q.k # "iv" THEN << <<"kind", q.k>> >>
                        ELSE V("class", q.cls = "Interval", "Interval") \o V("length", q.r3 = want, want)
  IN IF PClass(a) = "skipped" \/ PClass(b) = "skipped" THEN R(<<"ill-formed-endpoint">>, <<>>)
     ELSE IF ~Exact(el0) \/ D3Abs(el0)[1] > 20000 THEN R(<<"beyond-float-exact">>, <<>>)
     ELSE IF PClass(a) = "repeated" /\ PClass(b) = "repeated" /\ ~IsDate(a) /\ ZRef(a.z) = ZRef(b.z) /\ e.a.abs
          THEN R(<<"overlap-pair">>, <<>>)                  \* finding C05-magnitude-inside-overlap, judged by iv_len
     ELSE CASE o = "as_duration" -> R(lab, CmpDur(p, el) \o TypeDur(p, TRUE))
            \* -interval swaps the end-points and keeps `absolute` (so an absolute interval keeps its magnitude)
            [] o = "neg" -> R(lab, IvLen(p, IF e.a.abs THEN D3Abs(el0) ELSE D3Neg(el0)))
            [] o = "abs" -> R(lab, IvLen(p, D3Abs(el0)))
            [] o \in {"mul_int", "rmul_int"} -> R(lab, CmpDur(p, D3MulInt(el, e.a.n)) \o TypeDur(p, TRUE))
            [] o = "floordiv_int" -> R(lab, CmpDur(p, D3FloorDivInt(el, e.a.n)) \o TypeDur(p, TRUE))
            [] o = "truediv_int" -> R(lab, CmpDur(p, D3DivRHE(el, e.a.n)) \o TypeDur(p, TRUE))
            [] o \in {"add_td", "radd_td"} -> R(lab, CmpDur(p, D3Add(el, td)) \o TypeDur(p, TRUE))
            [] o = "sub_td" -> R(lab, CmpDur(p, D3Sub(el, td)) \o TypeDur(p, TRUE))
            [] o = "rsub_td" -> R(lab, CmpDur(p, D3Sub(td, el)))        \* timedelta - Interval: the native difference (type not stated)
            [] o = "totals" ->
                 R(lab \o <<"plain", B(plain)>>,
                   IF p.k = "exc" THEN << <<"unexpected-exception", p.names>> >>
                   ELSE V("total_seconds", p.ts = el, el)
                        \o V("x-eq-timedelta", p.eq_td, "an Interval equals the timedelta of its length")
                        \o V("x-eq-duration", p.eq_dur, "an Interval equals its as_duration()")
                        \o V("x-in_years", p.iny = <<(IF p.years = 0 THEN 0 ELSE IF p.years > 0 THEN 1 ELSE -1), Abs(p.years)>>, "years")
                        \* Interval.in_days() counts the CALENDAR-DAY boundaries between the two wall dates (23:59 -> 00:01
                        \* is one day), unlike Duration.in_days(), which truncates the elapsed time: modelled as implemented
                        \o (IF plain THEN LET cd0 == Ord(b.w[1], b.w[2], b.w[3]) - Ord(a.w[1], a.w[2], a.w[3])
                                              cd == IF e.a.abs THEN Abs(cd0) ELSE cd0
                                              sg == IF cd = 0 THEN 0 ELSE IF cd > 0 THEN 1 ELSE -1
                                          IN V("x-in_days", p.ind = <<sg, Abs(cd)>>, cd)
                                             \o V("x-in_weeks", p.inw = <<(IF Abs(cd) \div 7 = 0 THEN 0 ELSE sg), Abs(cd) \div 7>>, cd)
                             ELSE <<>>))

\* ---- C20 -----------------------------------------------------------------------------
J_time_add(e) ==
  LET t == e.pre[1].w
      d0 == D3Of(0, e.a.h, e.a.mi, e.a.s, e.a.us)
      back == e.a.entry \in {"subtract", "minus_td", "minus_dur"}
      d == IF back THEN D3Neg(d0) ELSE d0
      \* a pendulum Duration is a timedelta too (its `days` slot is the native, floor-normalised one)
      viaTd == e.a.entry \in {"plus_td", "minus_td", "radd_td", "plus_dur", "minus_dur", "radd_dur"}
      hasDays == d0[1] # 0
      x == TimeAdd(t, d)
  IN IF viaTd /\ hasDays /\ D3Abs(d0)[1] = 0
     THEN R(<<e.a.entry, "negative-sub-day-timedelta">>, <<>>)       \* "day component" has two readings here
     ELSE IF viaTd /\ hasDays
     THEN R(<<e.a.entry, "td-with-days">>,
            IF e.post.k = "exc" THEN V("exception-class", "TypeError" \in ToSet(e.post.names), "TypeError")
            ELSE << <<"must-raise", "TypeError">> >>)
     ELSE R(<<e.a.entry, B(D3Add(TimeD3(t), d)[1] # 0)>>,
            IF e.post.k = "exc" THEN << <<"unexpected-exception", e.post.names>> >>
            ELSE IF e.post.k # "time" THEN << <<"kind", e.post.k>> >>
            ELSE V("class", e.post.cls = "Time", "Time") \o V("time", e.post.w = x, x))
J_time_diff(e) ==
  LET t1 == e.pre[1].w  t2 == e.pre[2].w  p == e.post
      d == TimeDiff(t1, t2)
      want == IF e.a.entry \in {"diff_abs", "diff_default"} THEN D3Abs(d) ELSE d
  IN R(<<e.a.entry, N(D3Sign(d) + 1), B(t1[4] # t2[4])>>,
       IF p.k = "exc" THEN << <<"unexpected-exception", p.names>> >>
       ELSE IF p.k # "dur" THEN << <<"kind", p.k>> >>
       ELSE V("difference", p.ts = want, want)
            \* the components of the returned Duration (an AbsoluteDuration for abs=True) spell the same difference
            \o (IF "remaining_seconds" \in DOMAIN p
                THEN V("components", CompsOf(p) = Breakdown(want), Breakdown(want))
                     \o V("invert", p.invert = (IF e.a.entry \in {"diff_abs", "diff_default"} THEN (IF D3Sign(d) < 0 THEN 1 ELSE 0)
                                                ELSE IF D3Sign(d) < 0 THEN 1 ELSE 0), "invert flags a negative difference")
                ELSE <<>>))
\* closest()/farthest(): the chosen candidate must be at least as close (far) as the other
J_time_pick(e) ==
  LET t == e.pre[1].w  a == e.pre[2].w  b == e.pre[3].w  p == e.post
      da == D3Abs(TimeDiff(t, a))  db == D3Abs(TimeDiff(t, b))
      okc == IF e.op = "time_closest" THEN (IF D3Lt(da, db) THEN {a} ELSE IF D3Lt(db, da) THEN {b} ELSE {a, b})
             ELSE (IF D3Lt(db, da) THEN {a} ELSE IF D3Lt(da, db) THEN {b} ELSE {a, b})
  IN R(<<e.op, B(da = db), B(<<da[1], da[2]>> = <<db[1], db[2]>>)>>,
       IF p.k = "exc" THEN << <<"unexpected-exception", p.names>> >>
       ELSE IF p.k # "time" THEN << <<"kind", p.k>> >>
       ELSE V("class", p.cls = "Time", "Time") \o V("choice", p.w \in okc, okc))

\* ---- C14 -----------------------------------------------------------------------------
\* pickle / copy / deepcopy are stuttering steps on the abstraction
SameDT(x, y) == /\ y.k = "dt" /\ y.cls = x.cls /\ ZRef(y.z) = ZRef(x.z) /\ y.w = x.w /\ y.off = x.off
                /\ (x.z.n \in {"naive", "?"} \/ InstOf(DT(y.z, y.w, y.f)) = InstOf(DT(x.z, x.w, x.f)))
SamePoint(x, y) == IF x.k = "dt" THEN SameDT(x, y) ELSE (y.k = x.k /\ y.cls = x.cls /\ y.w = x.w)
DurFields(p) == <<p.r3, p.years, p.months, p.weeks, p.remaining_days, p.hours, p.minutes, p.remaining_seconds,
                  p.microseconds, p.invert>>
J_copy(e) ==
  LET x == IF e.a.how \in {"deepcopy-pair", "pickle-pair"} THEN e.pre[2] ELSE e.pre[1]      \* pairs: the second value is judged
      p == e.post
      lab == <<x.k, e.a.how>> \o (IF x.k = "dt" THEN <<ClassOf(DT(x.z, x.w, x.f)), B(x.f = 1)>>
                                  ELSE IF x.k = "dur" THEN <<B(x.years # 0 \/ x.months # 0), B(x.weeks # 0)>>
                                  ELSE IF x.k = "iv" THEN <<B(x.abs), B(x.invert = 1), x.a.k>> ELSE <<>>)
  IN R(lab,
       IF p.k = "exc" THEN << <<"unexpected-exception", p.names>> >>
       ELSE V("type", p.same_type /\ p.k = x.k /\ p.cls = x.cls, x.cls)
            \o (CASE x.k = "dt" -> (IF p.k = "dt" THEN V("fields", ZRef(p.z) = ZRef(x.z) /\ p.w = x.w, x.w)
                                                     \o V("instant-offset", SameDT(x, p), <<x.off, x.f>>)
                                                     \o V("zone-name", p.same_tzname, "tzname() and utcoffset() as before")
                                                     \o V("fold", p.f = x.f, x.f) ELSE <<>>)          \* `fold` is a public field too
                  [] x.k \in {"date", "time"} -> (IF p.k = x.k THEN V("fields", p.w = x.w, x.w) \o V("equal", p.eq, TRUE)
                                                     \o (IF x.k = "time" THEN V("zone-name", p.same_tzname, "tzname() and utcoffset() as before")
                                                                              \o V("zone", ZRef(p.z) = ZRef(x.z), x.z) ELSE <<>>)
                                                 ELSE <<>>)
                  [] x.k = "dur" -> (IF p.k = "dur" THEN V("components", DurFields(p) = DurFields(x), DurFields(x))
                                                       \o V("equal", p.eq, TRUE) ELSE <<>>)
                  [] x.k = "iv" -> (IF p.k = "iv" THEN V("endpoints", SamePoint(x.a, p.a) /\ SamePoint(x.b, p.b), <<x.a.w, x.b.w>>)
                                                      \o V("absolute", p.abs = x.abs, x.abs)
                                                      \o V("components", DurFields(p) = DurFields(x), DurFields(x))
                                                      \o V("equal", p.eq, TRUE) ELSE <<>>)
                  [] x.k = "tz" -> (IF p.k = "tz" THEN V("zone", ZRef(p.z) = ZRef(x.z) /\ p.name = x.name, x.z) ELSE <<>>)
                  [] OTHER -> << <<"unknown-kind", x.k>> >>))

\* ---- C19 -----------------------------------------------------------------------------
PtOf(v) == IF v.k = "date" THEN [k |-> "date", w |-> v.w] ELSE DT(v.z, v.w, v.f)
CmpPt(post, x) == IF x.k = "date" THEN (IF post.k # "date" THEN << <<"kind", post.k>> >>
                                        ELSE V("class", post.cls = "Date", "Date") \o V("date", post.w = x.w, x.w))
                  ELSE CmpDT(post, x)
Ambig(v) == v.k = "dt" /\ ~IsNaive(v) /\ ClassOf(v) = "repeated"
RECURSIVE RangeItems(_, _, _, _, _, _, _, _, _)
RangeItems(a, b, abs, unit, stp, crossSkip, ambiguous, items, j) ==
  IF j > Len(items) THEN <<>>
  ELSE LET it == items[j]
           x == Kth(a, b, abs, unit, stp, it[1])
       IN (IF crossSkip THEN <<>> ELSE
           (LET c == CmpPt(it[2], x) IN IF c = <<>> THEN <<>> ELSE << <<"value", <<it[1], c>> >> >>)
           \o V("inside", Between(a, b, x), it[1]))
          \o RangeItems(a, b, abs, unit, stp, crossSkip, ambiguous, items, j + 1)
J_range(e) ==
  LET a == PtOf(e.pre[1])  b == PtOf(e.pre[2])  p == e.post
      abs == e.a.abs  unit == e.a.unit  stp == e.a.n
      cnt == p.count
      zoned == a.k = "dt" /\ ~IsNaive(a)
      lo == IF PLe(a, b) THEN a ELSE b
      hi == IF PLe(a, b) THEN b ELSE a
      crossSkip == zoned /\ unit \in {"years", "months", "weeks", "days"}
                   /\ D3Abs(Elapsed(e.pre[1], e.pre[2]))[1] < 800
                   /\ SkippedDay(Z(a.z), Ord(lo.w[1], lo.w[2], lo.w[3]) - 1, Ord(hi.w[1], hi.w[2], hi.w[3]) + 1)
      last == Kth(a, b, abs, unit, stp, cnt - 1)
      nxt == Kth(a, b, abs, unit, stp, cnt)
      \* CPython orders two values sharing a tzinfo by wall clock, ignoring fold: no verdict when an END-POINT
      \* sits on an ambiguous wall time (soundness rule 2).  Against an unambiguous end-point the wall-clock
      \* order of any value - ambiguous or not - is its order in time, so values stepping through a repeated
      \* hour are judged like all others (`ambiguous` is only a label).
      endAmbig == zoned /\ (Ambig(a) \/ Ambig(b))
      ambiguous == zoned /\ (Ambig(last) \/ Ambig(nxt))
  IN IF hi.w[1] > 9900 \/ lo.w[1] < 100 THEN R(<<"out-of-range">>, <<>>)          \* soundness rule 3
     ELSE IF endAmbig THEN R(<<"ambiguous-end-point">>, <<>>)                      \* soundness rule 2
     ELSE IF zoned /\ (PClass(e.pre[1]) = "skipped" \/ PClass(e.pre[2]) = "skipped") THEN R(<<"ill-formed-endpoint">>, <<>>)
     ELSE IF p.k = "exc" THEN R(<<"exception">>, << <<"unexpected-exception", p.names>> >>)
     ELSE R(<<a.k, unit, N(stp), B(abs), N(IvDir(a, b, abs) + 1), B(crossSkip), B(ambiguous), B(p.capped)>>,
       (IF crossSkip \/ p.capped \/ cnt < 1 THEN <<>>
        ELSE V("stops-at-last-not-beyond", NotBeyond(a, b, abs, last) /\ ~NotBeyond(a, b, abs, nxt), cnt)
             \o V("end-yielded-iff-reachable", p.end_yielded = (PointOf(last) = PointOf(IvEnd(a, b, abs))), PointOf(last)))
       \o (IF cnt < 1 /\ ~p.capped THEN V("yields-start", FALSE, "the start is always yielded") ELSE <<>>)
       \o RangeItems(a, b, abs, unit, stp, crossSkip, ambiguous, p.items, 1))
J_contains(e) ==
  LET a == PtOf(e.pre[1])  b == PtOf(e.pre[2])  x == PtOf(e.pre[3])
      \* CPython orders two values that SHARE a tzinfo by wall clock, ignoring fold: no verdict when such a pair has a
      \* member on an ambiguous wall time (soundness rule 2); a probe from another zone is compared by instants
      SameZ(u, v) == u.k = "dt" /\ v.k = "dt" /\ ~IsNaive(u) /\ ZRef(u.z) = ZRef(v.z)
      Clash(u, v) == SameZ(u, v) /\ (Ambig(u) \/ Ambig(v))
      ambiguous == Clash(x, a) \/ Clash(x, b) \/ (e.a.abs /\ Clash(a, b))
      want == Contains(a, b, e.a.abs, x)
  IN R(<<a.k, B(e.a.abs), B(want), B(ambiguous), "end-ambiguous", B(Ambig(a) \/ Ambig(b)), "probe-other-zone", B(~SameZ(x, a))>>,
       IF ambiguous THEN <<>> ELSE
       IF e.post.k = "exc" THEN << <<"unexpected-exception", e.post.names>> >>
       ELSE V("contains", e.post.v = want, want))

\* ---- C07 -----------------------------------------------------------------------------
IsValueError(p) == p.k = "exc" /\ "ValueError" \in ToSet(p.names)
Aware(p) == p.z.n # "naive"
\* a native / pendulum result against the denoted value v
CmpParsed(p, v, cls, tag) ==
  IF p.k = "exc" THEN << <<tag \o "-rejects-valid", p.names>> >>
  ELSE CASE v.kind = "date" -> (IF p.k # "date" THEN << <<tag \o "-kind", p.k>> >>
                                ELSE V(tag \o "-class", p.cls = cls.date, cls.date) \o V(tag \o "-date", p.w = v.d, v.d))
         [] v.kind = "time" -> (IF p.k # "time" THEN << <<tag \o "-kind", p.k>> >>
                                ELSE V(tag \o "-class", p.cls = cls.time, cls.time) \o V(tag \o "-time", p.w = v.t, v.t))
         [] v.kind = "datetime" ->
              (IF p.k # "dt" THEN << <<tag \o "-kind", p.k>> >>
               ELSE V(tag \o "-class", p.cls = cls.dt, cls.dt)
                    \o V(tag \o "-fields", p.w = <<v.d[1], v.d[2], v.d[3], v.t[1], v.t[2], v.t[3], v.t[4]>>, <<v.d, v.t>>)
                    \o (IF v.hasoff THEN V(tag \o "-offset", Aware(p) /\ p.off = v.off, v.off) ELSE <<>>))
NativeCls == [date |-> "date", time |-> "time", dt |-> "datetime"]
PendCls == [date |-> "Date", time |-> "Time", dt |-> "DateTime"]
J_iso_parse(e) ==
  LET f == e.a.form  p == e.post
      txt == RenderForm(f)
      v == DenoteForm(f)
      r == Recognise(txt)
      lab == <<f.dk, f.tk, B(f.ext), N(Len(f.fd)), f.ok, B(e.a.exact), B(v.ok), (IF e.a.tz.n = "UTC" THEN "utc" ELSE "tz"),
               "week0", B(f.dk \in {"week", "weekd"} /\ (f.wk = 0 \/ (f.dk = "weekd" /\ f.wd = 0)))>>
  IN R(lab,
       V("form-text", txt = e.a.text, txt)
       \o V("spec-generator-recogniser", r = v, "Recognise(RenderForm(f)) = DenoteForm(f)")
       \o (IF ~FormTimeValid(f) \/ f.dk \in {"y", "ym"} THEN <<>>   \* rejection is demanded of impossible DATES only;
                                                                     \* reduced-precision dates are not among the listed forms
           ELSE IF ~v.ok
           THEN V("top-must-reject", IsValueError(p.top), "ValueError") \o V("py-must-reject", IsValueError(p.py), "ValueError")
                \o V("rs-must-reject", IsValueError(p.rs), "ValueError")
           ELSE CmpParsed(p.py, v, NativeCls, "py") \o CmpParsed(p.rs, v, NativeCls, "rs")
                \o (IF e.a.exact THEN CmpParsed(p.top, v, PendCls, "top")
                                      \o (IF v.kind = "datetime" /\ ~v.hasoff /\ p.top.k = "dt"
                                          THEN V("top-zone", ZRef(p.top.z) = ZRef(e.a.tz), e.a.tz) ELSE <<>>)
                    ELSE IF v.kind = "time" THEN <<>>          \* completed from the current date: not judged
                    ELSE LET vv == IF v.kind = "date" THEN [v EXCEPT !.kind = "datetime"] ELSE v IN
                         CmpParsed(p.top, vv, PendCls, "top")
                         \o (IF ~v.hasoff /\ p.top.k = "dt" THEN V("top-zone", ZRef(p.top.z) = ZRef(e.a.tz), e.a.tz) ELSE <<>>))))
\* a whole year of dates in one textual form: parsed[k] must be day k of the year
J_iso_year_scan(e) ==
  LET y == e.a.y  n == DaysInYear(y)  p == e.post
      Exp(k) == LET t == YMD(Ord(y, 1, 1) + k - 1) IN <<t[1], t[2], t[3]>>
      f0 == [dk |-> "none", ext |-> e.a.ext, y |-> y, m |-> 1, d |-> 1, n |-> 1, wk |-> 1, wd |-> 1, tk |-> "none", h |-> 0,
             mi |-> 0, s |-> 0, fd |-> <<>>, fsep |-> cDot, sep |-> cT, ok |-> "none", osg |-> 1, oh |-> 0, om |-> 0]
      FormOf(k) == LET t == Exp(k)  c == IsoCal(Ord(y, 1, 1) + k - 1) IN
                   CASE e.a.dk = "cal" -> [f0 EXCEPT !.dk = "cal", !.m = t[2], !.d = t[3]]
                     [] e.a.dk = "ord" -> [f0 EXCEPT !.dk = "ord", !.n = k]
                     [] e.a.dk = "weekd" -> [f0 EXCEPT !.dk = "weekd", !.y = c[1], !.wk = c[2], !.wd = c[3]]
  IN R(<<e.a.dk, B(e.a.ext), e.a.which, B(IsLeap(y))>>,
       ArrClause("parsed-date", p.v, n, Exp)
       \o V("sample-text", \A i \in 1..Len(p.samples) : p.samples[i][2] = RenderForm(FormOf(p.samples[i][1])), "RenderForm"))
\* parse() inverts the renderers (UTC / fixed-offset DateTimes)
J_iso_roundtrip(e) ==
  LET s == Src(e)  p == e.post  off == OffOf(s)  fmt == e.a.fmt
      want == CASE fmt = "isoformat" -> IsoFormat(s.w, TRUE, off, cT)
                [] fmt = "str" -> IsoFormat(s.w, TRUE, off, cSp)
                [] fmt = "iso8601" -> Iso8601String(s.w, TRUE, off, s.z.n = "UTC")
                [] fmt = "rfc3339" -> IsoFormat(s.w, TRUE, off, cT)
                [] fmt \in {"atom", "w3c"} -> AtomString(s.w, off)
      secOnly == fmt \in {"atom", "w3c"}
      ww == IF secOnly THEN <<s.w[1], s.w[2], s.w[3], s.w[4], s.w[5], s.w[6], 0>> ELSE s.w
  IN R(<<fmt, B(s.w[7] # 0), B(off % 60 # 0), (IF s.z.n = "" THEN "fixed" ELSE "named")>>,
       IF off % 60 # 0 /\ secOnly THEN <<>>            \* these formats cannot carry seconds of offset
       ELSE V("rendering", p.text = want, want)
            \o (IF p.parsed.k = "exc" THEN << <<"parse-rejects-own-rendering", p.parsed.names>> >>
                ELSE IF p.parsed.k # "dt" THEN << <<"kind", p.parsed.k>> >>
                ELSE V("class", p.parsed.cls = "DateTime", "DateTime") \o V("fields", p.parsed.w = ww, ww)
                     \o V("offset", p.parsed.off = off, off)))

\* ---- C13 -----------------------------------------------------------------------------
\* a parsed duration projection: years, months (ints) and r3 (native slots); rest = r3 - (365 y + 30 mo) days
RestOfP(p) == D3Sub(p.r3, <<365 * p.years + 30 * p.months, 0, 0>>)
CmpParsedDur(p, r, tag) ==
  IF p.k = "exc" THEN << <<tag \o "-rejects-valid", p.names>> >>
  ELSE IF p.k # "dur" THEN << <<tag \o "-kind", p.k>> >>
  ELSE V(tag \o "-years-months", <<p.years, p.months>> = <<BNToInt(r.y), BNToInt(r.mo)>>, <<BNToInt(r.y), BNToInt(r.mo)>>)
       \o V(tag \o "-length", RestOfP(p) = r.rest, r.rest)
\* where the fraction stands: a fraction of SECONDS with up to six digits is a plain microsecond count
FracClass(r) == CASE r.fracrank = 0 -> "none"
                  [] r.fracrank = 7 -> (IF r.fraclen <= 6 THEN "sec-1-6" ELSE "sec-7+")
                  \* (one digit on minutes, hours or days is exact in both parsers: tenths divide those units evenly)
                  [] r.fracrank = 6 -> (IF r.fraclen = 1 THEN "min-tenth" ELSE "min")
                  [] r.fracrank = 5 -> (IF r.fraclen = 1 THEN "hour-tenth" ELSE "hour")
                  [] r.fracrank = 4 -> (IF r.fraclen = 1 THEN "day-tenth" ELSE "day") [] r.fracrank = 3 -> "week"
J_dur_parse(e) ==
  LET r == RecDuration(e.a.text)  p == e.post IN
  IF ~r.ok
  THEN R(<<"ill-formed", e.a.cls, "zero-component",
           \* some component is the number 0 (the compiled parser remembers the designators it has seen by their values)
           B(\E i \in 1..(Len(e.a.text) - 1) : e.a.text[i] = 48 /\ (i = 1 \/ ~IsDigit(e.a.text[i - 1])) /\ e.a.text[i + 1] \in Designators)>>,
         IF e.a.cls \in {"out-of-order", "frac-year", "frac-month"}
         THEN V("top-must-reject", p.top.k = "exc", e.a.cls) \o V("py-must-reject", p.py.k = "exc", e.a.cls)
              \o V("rs-must-reject", p.rs.k = "exc", e.a.cls)
         ELSE <<>>)
  ELSE IF r.big
  THEN R(<<"too-large", e.a.cls, "wide", B(r.maxdigits >= 10)>>, V("top-must-reject-too-large", p.top.k = "exc", "not representable")
                                   \o V("py-must-reject-too-large", p.py.k = "exc", "not representable")
                                   \o V("rs-must-reject-too-large", p.rs.k = "exc", "not representable"))
  ELSE IF r.tie THEN R(<<"half-microsecond-tie">>, <<>>)           \* "rounded" names no tie rule (soundness rule 2)
  ELSE R(<<"valid", e.a.cls, "frac", N(r.fraclen), "frac-class", FracClass(r), "ncomp", N(r.ncomp), "wide", B(r.maxdigits >= 10)>>,
         V("driver-class", e.a.cls = "valid", "the driver labelled a well-formed duration as ill-formed")
         \o CmpParsedDur(p.top, r, "top") \o CmpParsedDur(p.py, r, "py") \o CmpParsedDur(p.rs, r, "rs")
         \o (IF p.top.k = "dur" THEN V("top-class", p.top.cls = "Duration", "Duration") ELSE <<>>))
\* ISO 8601 intervals: start/end, start/duration, duration/end
CompOfRest(y, mo, rest) == LET b == Breakdown(rest) IN
   [y |-> y, mo |-> mo, w |-> b[1], d |-> b[2], h |-> b[3], mi |-> b[4], s |-> b[5], us |-> b[6]]
J_iv_parse(e) ==
  LET p == e.post
      pa == IF e.a.kind = "duration/end" THEN Invalid ELSE Recognise(e.a.t1)
      pb == IF e.a.kind = "start/duration" THEN Invalid ELSE Recognise(e.a.t2)
      du == IF e.a.kind = "start/end" THEN Invalid ELSE RecDuration(IF e.a.kind = "start/duration" THEN e.a.t2 ELSE e.a.t1)
      \* an end-point without an offset is a wall time of the zone given by the tz option (default UTC), built by the
      \* construction rules; the missing end-point is computed in that zone, on the wall clock
      ZoneOpt == IF "tz" \in DOMAIN e.a THEN e.a.tz ELSE UtcRef
      AsDT(v) == IF v.hasoff THEN DT(FixedRef(v.off), <<v.d[1], v.d[2], v.d[3], v.t[1], v.t[2], v.t[3], v.t[4]>>, 0)
                 ELSE Construct(ZoneOpt, <<v.d[1], v.d[2], v.d[3], v.t[1], v.t[2], v.t[3], v.t[4]>>, 1)
      okForms == (e.a.kind = "start/end" => pa.ok /\ pb.ok /\ pa.kind = "datetime" /\ pb.kind = "datetime")
                 /\ (e.a.kind = "start/duration" => pa.ok /\ pa.kind = "datetime" /\ du.ok /\ ~du.big /\ ~du.tie)
                 /\ (e.a.kind = "duration/end" => pb.ok /\ pb.kind = "datetime" /\ du.ok /\ ~du.big /\ ~du.tie)
  IN IF ~okForms THEN R(<<e.a.kind, "not-well-formed">>, <<>>)
     ELSE LET c == IF e.a.kind = "start/end" THEN [y |-> 0] ELSE CompOfRest(BNToInt(du.y), BNToInt(du.mo), du.rest)
              st == IF e.a.kind = "duration/end" THEN Add(AsDT(pb), NegC(c)) ELSE AsDT(pa)
              en == IF e.a.kind = "start/duration" THEN Add(AsDT(pa), c) ELSE AsDT(pb)
              given == IF e.a.kind = "duration/end" THEN {en} ELSE IF e.a.kind = "start/duration" THEN {st} ELSE {st, en}
          IN IF \E g \in given : ClassOf(g) = "repeated"
             THEN R(<<e.a.kind, "ambiguous-given-endpoint">>, <<>>)     \* which occurrence a written wall time means is not stated
             ELSE
             R(<<e.a.kind, "ok", (IF "tz" \in DOMAIN e.a THEN "tz" ELSE "no-tz"), ClassOf(st), ClassOf(en)>>,
               IF p.k = "exc" THEN << <<"rejects-valid", p.names>> >>
               ELSE IF p.k # "iv" THEN << <<"kind", p.k>> >>
               ELSE V("class", p.cls = "Interval", "Interval")
                    \o V("start", p.a.k = "dt" /\ p.a.w = st.w /\ p.a.off = OffOf(st), st.w)
                    \o V("end", p.b.k = "dt" /\ p.b.w = en.w /\ p.b.off = OffOf(en), en.w))

\* ---- C17 -----------------------------------------------------------------------------
\* characters of the supported notations (RFC 3339 also allows lower-case t and z)
IsoAlphabet == (48..57) \cup {cColon, cT, cZ, cW, cSlash, cP, cPlus, cDash, cDot, cComma, cSp, cY, cM, cD, cH, cS, 116, 122}
HasForeign(t) == \E i \in 1..Len(t) : t[i] \notin IsoAlphabet
PendulumValue(p) == \/ (p.k = "dt" /\ p.cls = "DateTime") \/ (p.k = "date" /\ p.cls = "Date") \/ (p.k = "time" /\ p.cls = "Time")
                    \/ (p.k = "dur" /\ p.cls = "Duration") \/ (p.k = "iv" /\ p.cls = "Interval")
SameLow(a, b) == IF a.k # b.k THEN FALSE
                 ELSE CASE a.k = "dt" -> a.w = b.w /\ Aware(a) = Aware(b) /\ a.off = b.off
                        [] a.k \in {"date", "time"} -> a.w = b.w
                        [] a.k = "dur" -> a.r3 = b.r3 /\ a.years = b.years /\ a.months = b.months
                        [] OTHER -> TRUE
\* a well-formed ISO 8601 interval: one '/', a date-time on one side and a date-time or a duration on the other
IvWellFormed(t) ==
  LET j == FirstIn(t, {cSlash}, 1) IN
  /\ j > 1 /\ j < Len(t) /\ FirstIn(t, {cSlash}, j + 1) = 0
  /\ LET a == Sub(t, 1, j - 1)  b == Sub(t, j + 1, Len(t))
         IsDTs(x) == Len(x) <= 40 /\ LET r == Recognise(x) IN r.ok /\ r.kind = "datetime"
         IsDur(x) == x[1] = cP /\ LET d == RecDuration(x) IN d.ok /\ ~d.big /\ d.maxdigits < 10
     IN (IsDTs(a) /\ (IsDTs(b) \/ IsDur(b))) \/ (IsDur(a) /\ IsDTs(b))
\* the end-point a start/duration or duration/end string leaves to be computed stays clear of the ends of the
\* representable range (soundness rule 3); TRUE for start/end strings
IvEndpointInRange(t) ==
  LET j == FirstIn(t, {cSlash}, 1)
      a == Sub(t, 1, j - 1)  b == Sub(t, j + 1, Len(t))
      W7(v) == <<v.d[1], v.d[2], v.d[3], v.t[1], v.t[2], v.t[3], v.t[4]>>
      CofD(d) == CompOfRest(BNToInt(d.y), BNToInt(d.mo), d.rest)
  IN IF a[1] = cP THEN CalInRange(W7(Recognise(b)), NegC(CofD(RecDuration(a))))
     ELSE IF b[1] = cP THEN CalInRange(W7(Recognise(a)), CofD(RecDuration(b)))
     ELSE TRUE
\* decimal digits of the scripts the drivers draw from (ASCII, Arabic-Indic, extended Arabic-Indic, full-width):
\* Python's int() and \d take all of them for digits
UDigit(c) == c \in 48..57 \/ c \in 1632..1641 \/ c \in 1776..1785 \/ c \in 65296..65305
\* a full numeric date written up front, YYYY-MM-DD / YYYY/MM/DD / YYYY:MM:DD, alone or followed by a time
LeadDate(t) ==
  IF Len(t) < 10 \/ ~AllDigits(Sub(t, 1, 4)) \/ ~AllDigits(Sub(t, 6, 7)) \/ ~AllDigits(Sub(t, 9, 10))
     \/ t[5] \notin {cDash, cSlash, cColon} \/ t[8] # t[5] \/ (Len(t) > 10 /\ t[11] \notin {cT, cSp})
  THEN [has |-> FALSE]
  ELSE [has |-> TRUE, d |-> <<Num(Sub(t, 1, 4)), Num(Sub(t, 6, 7)), Num(Sub(t, 9, 10))>>]
\* a fraction of ten or more digits cut back to its first nine (what the digits beyond the ninth can change is nothing:
\* the value keeps six); <<>> when the text holds no such fraction
RECURSIVE DigitRunEnd(_, _)
DigitRunEnd(t, i) == IF i <= Len(t) /\ IsDigit(t[i]) THEN DigitRunEnd(t, i + 1) ELSE i - 1      \* last index of the run starting at i
CutLongFraction(t) ==
  LET j == FirstIn(t, {cDot, cComma}, 1) IN
  IF j = 0 \/ j = Len(t) THEN <<>>
  ELSE LET k == DigitRunEnd(t, j + 1) IN
       IF k - j < 10 THEN <<>> ELSE Sub(t, 1, j + 9) \o Sub(t, k + 1, Len(t))
\* the two end-points a well-formed interval string denotes, when every date-time in it carries its own offset
\* (so that no option and no DST rule matters); [ok |-> FALSE] otherwise
IvValue(t) ==
  LET j == FirstIn(t, {cSlash}, 1)
      a == Sub(t, 1, j - 1)  b == Sub(t, j + 1, Len(t))
      AsFixed(v) == DT(FixedRef(v.off), <<v.d[1], v.d[2], v.d[3], v.t[1], v.t[2], v.t[3], v.t[4]>>, 0)
      CofD(d) == CompOfRest(BNToInt(d.y), BNToInt(d.mo), d.rest)
  IN IF a[1] = cP
     THEN LET d == RecDuration(a)  v == Recognise(b) IN
          IF ~v.hasoff \/ d.tie THEN [ok |-> FALSE] ELSE [ok |-> TRUE, st |-> Add(AsFixed(v), NegC(CofD(d))), en |-> AsFixed(v)]
     ELSE IF b[1] = cP
     THEN LET d == RecDuration(b)  v == Recognise(a) IN
          IF ~v.hasoff \/ d.tie THEN [ok |-> FALSE] ELSE [ok |-> TRUE, st |-> AsFixed(v), en |-> Add(AsFixed(v), CofD(d))]
     ELSE LET v == Recognise(a)  w == Recognise(b) IN
          IF ~v.hasoff \/ ~w.hasoff THEN [ok |-> FALSE] ELSE [ok |-> TRUE, st |-> AsFixed(v), en |-> AsFixed(w)]
\* a string with the SHAPE of an ISO week date (YYYY-Www[-D] or YYYYWww[D], alone): [has, y, wk, wd]
WeekShape(t) ==
  LET n == Len(t)
      ext == n \in {8, 10} /\ t[5] = cDash /\ t[6] = cW /\ AllDigits(Sub(t, 1, 4)) /\ AllDigits(Sub(t, 7, 8))
             /\ (n = 10 => t[9] = cDash /\ IsDigit(t[10]))
      bas == n \in {7, 8} /\ t[5] = cW /\ AllDigits(Sub(t, 1, 4)) /\ AllDigits(Sub(t, 6, 7)) /\ (n = 8 => IsDigit(t[8]))
  IN IF ext THEN [has |-> TRUE, y |-> Num(Sub(t, 1, 4)), wk |-> Num(Sub(t, 7, 8)), wd |-> IF n = 10 THEN t[10] - 48 ELSE 1]
     ELSE IF bas THEN [has |-> TRUE, y |-> Num(Sub(t, 1, 4)), wk |-> Num(Sub(t, 6, 7)), wd |-> IF n = 8 THEN t[8] - 48 ELSE 1]
     ELSE [has |-> FALSE]
J_parse_any(e) ==
  LET t == e.a.text  p == e.post  o == e.a.opts
      ascii == \A i \in 1..Len(t) : t[i] < 128
      r == IF ascii /\ Len(t) <= 40 THEN Recognise(t) ELSE Invalid
      rd == IF ascii /\ Len(t) <= 60 /\ Len(t) > 0 /\ t[1] = cP THEN RecDuration(t) ELSE Invalid
      okd == rd.ok /\ ~rd.big /\ ~rd.tie /\ ~rd.hasfrac /\ rd.maxdigits < 10
      outcome == IF p.top.k = "exc" THEN (IF "ValueError" \in ToSet(p.top.names) THEN "ValueError" ELSE "escaped") ELSE p.top.k
      isNow == t = <<110, 111, 119>>                 \* parse("now") is a documented special case
      excName == IF p.top.k = "exc" THEN p.top.names[1] ELSE "-"
      ivok == ascii /\ Len(t) <= 90 /\ IvWellFormed(t)
      \* where the duration part of a well-formed interval carries its decimal fraction (the classes of C13)
      ivfc == IF ~ivok THEN "-"
              ELSE LET j == FirstIn(t, {cSlash}, 1)  a == Sub(t, 1, j - 1)  b == Sub(t, j + 1, Len(t)) IN
                   IF a[1] = cP THEN FracClass(RecDuration(a)) ELSE IF b[1] = cP THEN FracClass(RecDuration(b)) ELSE "none"
  IN IF isNow THEN R(<<"now">>, <<>>) ELSE
     R(<<outcome, B(o.strict), B(o.exact), B(r.ok), B(rd.ok), B(HasForeign(t)), e.a.origin, "exc", excName,
         "slash", B(Has(t, cSlash)), "iv-wellformed", B(ivok), "iv-endpoint-in-range", (IF ivok THEN B(IvEndpointInRange(t)) ELSE "-"), "nonascii", B(~ascii), "wide", B(rd.ok /\ rd.maxdigits >= 10),
         "longdigits", B(\E i \in 1..(Len(t) - 9) : \A j \in i..(i + 9) : UDigit(t[j])),
         "durfrac", B(rd.ok /\ rd.hasfrac), "trailing-newline", B(Len(t) > 0 /\ t[Len(t)] = 10),
         "ends-colon", B((Len(t) > 0 /\ t[Len(t)] = cColon) \/ (\E i \in 1..(Len(t) - 1) : t[i] = cColon /\ t[i + 1] \in {cColon, cDot, cComma})),
         "iv-durfrac", ivfc>>,
       V("total", IF p.top.k = "exc" THEN "ValueError" \in ToSet(p.top.names) ELSE PendulumValue(p.top), "a pendulum value or ValueError")
       \o V("low-level-total", (p.py.k = "exc" => "ValueError" \in ToSet(p.py.names)) /\ (p.rs.k = "exc" => "ValueError" \in ToSet(p.rs.names)),
            "ValueError")
       \o (IF p.py.k # "exc" /\ p.rs.k # "exc" THEN V("backends-agree", SameLow(p.py, p.rs), p.py) ELSE <<>>)
       \o (IF o.strict /\ HasForeign(t) THEN V("strict-rejects-foreign-text", IsValueError(p.top), "ValueError") ELSE <<>>)
       \* an interval has ONE solidus: two or more (outside a slash-separated date written up front) are no supported form
       \o (IF o.strict /\ Cardinality({i \in 1..Len(t) : t[i] = cSlash}) >= 2 /\ ~(Len(t) >= 5 /\ t[5] = cSlash)
           THEN V("strict-rejects-several-solidi", IsValueError(p.top) \/ (p.top.k = "exc" /\ "ValueError" \notin ToSet(p.top.names)), "ValueError")
           ELSE <<>>)
       \o (IF r.ok /\ r.kind # "time" /\ r.d[1] >= 1583
           THEN LET v == IF r.kind = "date" /\ ~o.exact THEN [r EXCEPT !.kind = "datetime"] ELSE r IN CmpParsed(p.top, v, PendCls, "recognised")
           ELSE <<>>)
       \o (IF okd THEN CmpParsedDur(p.top, rd, "recognised-duration") ELSE <<>>)
       \* a week number beyond the weeks of its ISO year, or a weekday beyond 7, is no date: accepting it means computing a
       \* value from a wrapped-around number (week 00 / weekday 0 are the known finding of C07 and left to it)
       \o (LET ws == IF ascii THEN WeekShape(t) ELSE [has |-> FALSE] IN
           IF ws.has /\ o.strict /\ ws.y >= 1 /\ ws.wk # 0 /\ ws.wd # 0 /\ (ws.wk > WeeksInIsoYear(ws.y) \/ ws.wd > 7)
           THEN V("impossible-week-date-rejected", p.top.k = "exc", "ValueError") ELSE <<>>)
       \* a well-formed interval whose date-times carry their offsets denotes two definite instants (C13), whatever the back-end
       \o (IF ivok /\ p.top.k = "iv" /\ IvEndpointInRange(t)
           THEN LET iv == IvValue(t) IN
                IF ~iv.ok THEN <<>>
                ELSE V("interval-start", p.top.a.k = "dt" /\ p.top.a.w = iv.st.w /\ p.top.a.off = OffOf(iv.st), iv.st.w)
                     \o V("interval-end", p.top.b.k = "dt" /\ p.top.b.w = iv.en.w /\ p.top.b.off = OffOf(iv.en), iv.en.w)
           ELSE <<>>)
       \* "never a value computed from silently wrapped-around numbers": whoever accepts a fraction of ten or more digits
       \* returns the value of the text with the fraction cut to nine digits
       \o (LET cut == IF ascii /\ Len(t) <= 60 THEN CutLongFraction(t) ELSE <<>>
               rc == IF cut # <<>> /\ Len(cut) <= 40 THEN Recognise(cut) ELSE Invalid
           IN IF ~rc.ok \/ rc.kind = "time" \/ rc.d[1] < 1583 THEN <<>>
              ELSE (IF p.top.k \in {"dt", "date"} /\ o.strict        \* strict=False may hand the text to dateutil, which re-reads it
                    THEN CmpParsed(p.top, (IF rc.kind = "date" /\ ~o.exact THEN [rc EXCEPT !.kind = "datetime"] ELSE rc), PendCls, "long-fraction")
                    ELSE <<>>)
                   \o (IF p.rs.k \in {"dt", "date"} THEN CmpParsed(p.rs, rc, NativeCls, "long-fraction-rs") ELSE <<>>)
                   \o (IF p.py.k \in {"dt", "date"} THEN CmpParsed(p.py, rc, NativeCls, "long-fraction-py") ELSE <<>>))
       \* extension: whatever else the string holds, a full date written up front is the date of the result, and an
       \* impossible one (month 13, day 0, year 0000) is never accepted
       \* (strict mode only: the dateutil fallback of strict=False re-reads the fields by its own rules)
       \* and day_first=True deliberately swaps the month and day fields of the non-ISO spellings
       \o (LET ld == IF ascii /\ o.strict /\ ~o.day_first THEN LeadDate(t) ELSE [has |-> FALSE] IN
           IF ~ld.has \/ p.top.k \notin {"dt", "date", "time"} THEN <<>>
           ELSE IF ~(ld.d[1] >= 1 /\ ld.d[2] \in 1..12 /\ ld.d[3] >= 1 /\ ld.d[3] <= DaysInMonth(ld.d[1], ld.d[2]))
                THEN << <<"x-impossible-leading-date-accepted", ld.d>> >>
                ELSE V("x-leading-date-kept", p.top.k # "time" /\ <<p.top.w[1], p.top.w[2], p.top.w[3]>> = ld.d, ld.d)))

\* ---- C08 -----------------------------------------------------------------------------
ItemKinds(items) == [i \in 1..Len(items) |-> <<items[i][1], items[i][2]>>]
TokSet(items) == {items[i][2] : i \in {j \in 1..Len(items) : items[j][1] = "tok"}}
J_format(e) ==
  LET s == Src(e)  a == e.a
      \* the named helpers render in the process-wide default locale, except to_cookie_string(), which pins English
      L == IF "proc_locale" \in DOMAIN a /\ a.named # "cookie" THEN LOC[a.proc_locale] ELSE LOC[a.locale]
      want == FormatItems(a.items, s, a.zname, L, 1)
  IN R(<<a.method, a.locale, B(IsNaive(s)), B(OffOf(s) < 0), ClassOf(s)>>,
       V("format-string", RenderFormat(a.items, 1) = a.fmt, RenderFormat(a.items, 1))
       \o (IF a.named # "" THEN V("named-composition", ItemKinds(a.items) = NamedFormat(a.named), a.named) ELSE <<>>)
       \o (IF e.post.k = "exc" THEN << <<"unexpected-exception", e.post.names>> >>
           ELSE IF e.post.k # "str" THEN << <<"kind", e.post.k>> >>
           ELSE V((IF \E i \in 1..Len(a.items) : a.items[i][1] = "tok" /\ a.items[i][2] \in ExtTokens
                   THEN "x-output-undocumented-token" ELSE "output"), e.post.v = want, want)))
HasAny(ts, set) == ts \cap set # {}
\* a full date: year + month + day, or year + day of the year
CompleteFormat(ts) == /\ HasAny(ts, {"YYYY", "Y"})
                      /\ ((HasAny(ts, {"MM", "M", "MMMM", "MMM"}) /\ HasAny(ts, {"DD", "D", "Do"})) \/ HasAny(ts, {"DDDD", "DDD"}))
                      /\ (HasAny(ts, {"HH", "H"}) \/ (HasAny(ts, {"hh", "h"}) /\ "A" \in ts))
                      /\ HasAny(ts, {"mm", "m"}) /\ HasAny(ts, {"ss", "s"}) /\ "SSSSSS" \in ts /\ HasAny(ts, {"Z", "ZZ", "z"})
J_from_format(e) ==
  LET s == Src(e)  a == e.a  L == LOC[a.locale]  p == e.post
      ts == TokSet(a.items)
      text == FormatItems(a.items, s, a.zname, L, 1)
      complete == CompleteFormat(ts)
      hasDate == HasAny(ts, {"YYYY", "Y", "YY", "MM", "M", "MMMM", "MMM", "DD", "D", "Do", "DDDD", "DDD", "Q"})
      hasEsc == \E i \in 1..Len(a.items) : a.items[i][1] = "esc"
      slashes == Cardinality({i \in 1..Len(a.zname) : a.zname[i] = cSlash})
  IN IF OffOf(s) % 60 # 0 \/ ("z" \in ts /\ s.z.n = "") THEN R(<<"outside-the-statement">>, <<>>) ELSE   \* whole-minute offsets, IANA names
     R(<<a.kind, a.locale, B(complete), "esc", B(hasEsc), "z", B("z" \in ts), B(HasAny(ts, {"MMMM", "MMM"})), B(HasAny(ts, {"DDDD", "DDD"})),
         "tokY", B("Y" \in ts), "zone-parts", N(slashes)>>,
       V("format-string", RenderFormat(a.items, 1) = a.fmt, RenderFormat(a.items, 1))
       \o V("formatted", p.text = text, text)
       \o (IF a.kind = "mismatch"
           THEN V("mismatch-must-raise-ValueError", IsValueError(p.back), "ValueError")
           ELSE IF p.back.k = "exc" THEN << <<"rejects-own-output", p.back.names>> >>
           ELSE IF p.back.k # "dt" THEN << <<"kind", p.back.k>> >>
           ELSE IF complete THEN V("class", p.back.cls = "DateTime", "DateTime") \o V("fields", p.back.w = s.w, s.w)
                                 \o V("offset", p.back.off = OffOf(s), OffOf(s))
           ELSE IF ~hasDate THEN V("date-from-now", <<p.back.w[1], p.back.w[2], p.back.w[3]>> = <<a.now[1], a.now[2], a.now[3]>>, a.now)
           ELSE <<>>))

\* ---- C08 / C18: the locale's own tables ----------------------------------------------------
\* The category functions of a shipped locale are the CLDR rules; every category the plural rule can produce has a
\* template wherever the formatter will look one up (a missing one is a KeyError or an unsubstituted placeholder).
Cats == {"zero", "one", "two", "few", "many", "other"}
J_locale_tables(e) ==
  LET name == e.a.locale  L == LOC[name]
      used == {L.plural_cat[n + 1] : n \in 0..1000}
      HU == {"year", "month", "week", "day", "hour", "minute", "second"}
      missing == {<<u, c>> \in HU \X used : L.units[u][c] = <<>> \/ L.relative[u]["future"][c] = <<>> \/ L.relative[u]["past"][c] = <<>>}
      oused == {L.ord_cat[n + 1] : n \in 0..400}
  IN IF e.a.scope = "ordinal"                  \* C08: ordinal suffixes (token Do)
     THEN R(<<"tables", "ordinal", name>>,
            ArrClause("cldr-ordinal-rule", L.ord_cat, 401, LAMBDA k : CldrOrdinal(name, k - 1))
            \o V("categories-are-cldr", oused \subseteq Cats, oused))
     ELSE
     R(<<"tables", "plural", name>>,
       ArrClause("cldr-plural-rule", L.plural_cat, 1001, LAMBDA k : CldrPlural(name, k - 1))
       \o V("cldr-plural-rule-large-counts", \A i \in 1..Len(L.plural_big) : L.plural_big[i][2] = CldrPlural(name, L.plural_big[i][1]),
            {L.plural_big[i][1] : i \in {j \in 1..Len(L.plural_big) : L.plural_big[j][2] # CldrPlural(name, L.plural_big[j][1])}})
       \o V("categories-are-cldr", used \subseteq Cats, used)
       \o V("template-for-every-plural-category", missing = {}, missing)
       \* after / before wrap every difference relative to another value; ago / from_now only the "a few seconds" phrase
       \o V("markers-present", L.after # <<>> /\ L.before # <<>> /\ (L.few_second # <<>> => L.ago # <<>> /\ L.from_now # <<>>),
            "after / before (and ago / from_now where few_second exists)"))

\* ---- C18 -----------------------------------------------------------------------------
J_humanize(e) ==
  LET a == e.a  p == e.post  L == LOC[a.locale]
      c == a.comps
      \* direction decided by the specification from the two values: the instance later than the reference is "future"
      x == e.pre[1]  y == e.pre[2]
      later == IF x.k = "time" THEN D3Lt(TimeD3(y.w), TimeD3(x.w))
               ELSE IF x.k = "date" THEN Ord(y.w[1], y.w[2], y.w[3]) < Ord(x.w[1], x.w[2], x.w[3])     \* a Date looks at dates only
               ELSE I3Lt(PointOf(y), PointOf(x))
      dir == IF later THEN "future" ELSE "past"
      cands == HumanCandidates(L, c, a.is_now, a.absolute, dir)
      li == LargestIdx(c)
      \* the components come from the interval between the two values: under the compiled back-end they inherit the
      \* hand-written UTC conversion of its precise_diff (same label as in J_iv_comp: "bad" where that conversion is wrong)
      rshift == IF x.k # "dt" \/ y.k # "dt" THEN "-"
                ELSE LET samez == ZRef(x.z) = ZRef(y.z)
                         sameDay == <<x.w[1], x.w[2], x.w[3]>> = <<y.w[1], y.w[2], y.w[3]>>
                         Shifts(v) == ~IsNaive(DT(v.z, v.w, v.f)) /\ ((~samez /\ OffOf(DT(v.z, v.w, v.f)) # 0) \/ sameDay)
                     IN IF ~Shifts(x) /\ ~Shifts(y) THEN "-"
                        ELSE IF (Shifts(x) => RustShiftOK(DT(x.z, x.w, x.f))) /\ (Shifts(y) => RustShiftOK(DT(y.z, y.w, y.f))) THEN "ok" ELSE "bad"
  IN R(<<a.entry, a.locale, (IF li = 0 THEN "zero" ELSE HUnits[li]), B(a.is_now), B(a.absolute), dir,
         "plural", (IF li = 0 THEN "-" ELSE PluralCat(L, c[li])), "rust-shift", rshift>>,
       IF p.k = "exc" THEN << <<"unexpected-exception", p.names>> >>
       ELSE IF p.k # "str" THEN << <<"kind", p.k>> >>
       ELSE V("non-empty", Len(p.v) > 0, "non-empty") \o V("placeholders-substituted", ~Has(p.v, 123) /\ ~Has(p.v, 125), "no { }")
            \o V("harness-direction", a.invert = later, later)
            \* the components the phrase is built from are the library's own decomposition of the interval: where that
            \* decomposition is a plain split of the elapsed time (no years or months; end-points in differently named zones -
            \* decomposed in UTC - or under one constant offset) they must add up to the elapsed whole seconds
            \o (IF x.k = "dt" /\ y.k = "dt" /\ c[1] = 0 /\ c[2] = 0
                   /\ (ZRef(x.z) # ZRef(y.z) \/ x.z.n \in {"", "UTC", "naive"})
                THEN LET el == MagSec(Elapsed(x, y)) IN
                     V("components-add-up-to-elapsed", <<7 * c[3] + c[4], c[5] * 3600 + c[6] * 60 + c[7]>> = el, el)
                ELSE <<>>)
            \o V("phrase", p.v \in cands, cands))
J_in_words(e) ==
  LET a == e.a  p == e.post  L == LOC[a.locale]
      \* the components a Duration must spell are computed by the specification from its constructor arguments (C09);
      \* those of an Interval are the library's own decomposition (judged by C06)
      own == IF a.entry = "duration"
             THEN LET g == e.pre[1].args  b == Breakdown(RestOf(g)) IN <<g.y, g.mo, b[1], b[2], b[3], b[4], b[5]>>
             ELSE a.comps
      want == InWordsR(L, own, a.sep, 1)
  IN R(<<a.entry, a.locale, B(want = <<>>)>>,
       IF p.k = "exc" THEN << <<"unexpected-exception", p.names>> >>
       ELSE IF p.k # "str" THEN << <<"kind", p.k>> >>
       ELSE V("non-empty", Len(p.v) > 0, "non-empty") \o V("placeholders-substituted", ~Has(p.v, 123) /\ ~Has(p.v, 125), "no { }")
            \o (IF want = <<>> THEN <<>> ELSE V("words", p.v = want, want))
            \* a Duration shorter than a second (of either sign) is spelt as a fraction of a second, not as the empty duration:
            \* from a hundredth of a second on, a count in the phrase carries a non-zero digit
            \o (IF a.entry = "duration" /\ want = <<>>
                THEN LET m == D3Abs(RestOf(e.pre[1].args)) IN
                     IF m[1] = 0 /\ m[2] = 0 /\ m[3] >= 10000
                     THEN V("subsecond-not-zero", (\E dg \in 49..57 : Has(p.v, dg)) \/ ~(\E dg \in 48..57 : Has(p.v, dg)), "a non-zero digit, or no count at all (locales whose singular omits it)") ELSE <<>>
                ELSE <<>>))

\* ---- C11 -----------------------------------------------------------------------------
\* accessors the spec models; every other accessor is judged by equality with the native twin only
J_native_acc(e) ==
  LET x == e.pre[1]  p == e.post IN
  IF x.k = "dt" THEN
     LET s == DT(x.z, x.w, x.f)  w == x.w  n == Ord(w[1], w[2], w[3])
         aware == ~IsNaive(s)  off == OffOf(s)
         ic == IsoCal(n)
         uw == IF aware THEN WallOf(InstOf(s)) ELSE w
         un == Ord(uw[1], uw[2], uw[3])
     IN R(<<"dt", ClassOf(s), B(s.f = 1), (IF aware THEN (IF s.z.n = "" THEN "fixed" ELSE "zone") ELSE "naive")>>,
          V("isoformat", p.iso = IsoFormat(w, aware, off, cT), IsoFormat(w, aware, off, cT))
          \o V("str", p.str = IsoFormat(w, aware, off, cSp), IsoFormat(w, aware, off, cSp))
          \o V("toordinal", p.ord = n, n) \o V("weekday", p.wd = Weekday(n) - 1, Weekday(n) - 1)
          \o V("isoweekday", p.iwd = Weekday(n), Weekday(n)) \o V("isocalendar", p.isocal = ic, ic)
          \o V("timetuple", SubSeq(p.tt, 1, 8) = <<w[1], w[2], w[3], w[4], w[5], w[6], Weekday(n) - 1, DayOfYear(w[1], w[2], w[3])>>, "fields, weekday, yday")
          \o V("utctimetuple", SubSeq(p.utt, 1, 8) = <<uw[1], uw[2], uw[3], uw[4], uw[5], uw[6], Weekday(un) - 1, DayOfYear(uw[1], uw[2], uw[3])>>, uw)
          \o V("utcoffset", (IF aware THEN p.off = <<1, off>> ELSE p.off = <<0, 0>>), off)
          \o (IF aware /\ s.z.n # "" THEN V("tzname", p.abbr = AbbrOf(s), AbbrOf(s)) ELSE <<>>)
          \o V("date()", p.date = <<"Date", <<w[1], w[2], w[3]>> >>, "Date")
          \o V("time()", p.time = <<"Time", <<w[4], w[5], w[6], w[7]>> >>, "Time")
          \o V("types", p.badtypes = <<>>, "methods returning date/time/datetime objects return the pendulum types")
          \o V("same-as-native", p.neq = <<>>, "every accessor equals the native object's")
          \o V("x-derived-as-native", p.xneq = <<>>, "replace(tzinfo=...) and the class methods give the value the native class gives")
          \o (IF ClassOf(s) = "unique" THEN V("equals-native", p.eq_twin /\ p.hash_twin, "== and hash") ELSE <<>>))
  ELSE IF x.k = "date" THEN
     LET w == x.w  n == Ord(w[1], w[2], w[3]) IN
     R(<<"date">>, V("isoformat", p.iso = RenderDate(w), RenderDate(w)) \o V("toordinal", p.ord = n, n)
                   \o V("weekday", p.wd = Weekday(n) - 1, Weekday(n) - 1) \o V("isoweekday", p.iwd = Weekday(n), Weekday(n))
                   \o V("isocalendar", p.isocal = IsoCal(n), IsoCal(n))
                   \o V("types", p.badtypes = <<>>, "pendulum types") \o V("same-as-native", p.neq = <<>>, "native")
                   \o V("x-derived-as-native", p.xneq = <<>>, "replace() and the class methods give the value the native class gives")
                   \o V("equals-native", p.eq_twin /\ p.hash_twin, "== and hash"))
  ELSE R(<<"time", B("z" \in DOMAIN x)>>, V("types", p.badtypes = <<>>, "pendulum types") \o V("same-as-native", p.neq = <<>>, "native")
                     \o V("x-derived-as-native", p.xneq = <<>>, "replace() and fromisoformat give the value the native class gives")
                     \o V("isoformat", p.iso = RenderHMS(<<0, 0, 0, x.w[1], x.w[2], x.w[3], x.w[4]>>) \o (IF x.w[4] # 0 THEN <<cDot>> \o Pad6(x.w[4]) ELSE <<>>)
                                   \o (IF "z" \in DOMAIN x /\ x.z.n = "" THEN RenderOffset(x.z.fo) ELSE <<>>),
                           "HH:MM:SS[.ffffff][+HH:MM[:SS]]")
                     \o V("equals-native", p.eq_twin /\ p.hash_twin, "== and hash"))
J_native_cmp(e) ==
  LET a == Src(e)  bb == e.pre[2]  b == DT(bb.z, bb.w, bb.f)  p == e.post
      sameTz == e.a.same_tzinfo
      ambiguous == sameTz /\ (ClassOf(a) = "repeated" \/ ClassOf(b) = "repeated")
      ia == InstOf(a)  ib == InstOf(b)
      want == <<I3Lt(ia, ib), I3Le(ia, ib), I3Lt(ib, ia), I3Le(ib, ia), ia = ib, ia # ib>>
      interZoneFold == ~sameTz /\ (ClassOf(a) = "repeated" \/ ClassOf(b) = "repeated")
  IN IF IsNaive(a) # IsNaive(b)
     THEN \* a naive value against an aware one: exactly what the native classes do - ordering and subtraction raise
          \* TypeError, == is False and != True - whichever operand is the pendulum one
          R(<<"mixed-naive-aware">>,
            V("raises-as-native", p.err_pp = p.err_nn /\ p.err_pn = p.err_nn /\ p.err_np = p.err_nn, p.err_nn)
            \o V("native-raises-TypeError", SubSeq(p.err_nn, 1, 4) = <<"TypeError", "TypeError", "TypeError", "TypeError">>
                                            /\ SubSeq(p.err_nn, 5, 8) = <<"-", "-", "TypeError", "TypeError">>, "the standard library's behaviour")
            \o V("equality-as-native", p.pp[5] = p.nn[5] /\ p.pp[6] = p.nn[6] /\ p.pn[5] = p.nn[5] /\ p.pn[6] = p.nn[6], <<p.nn[5], p.nn[6]>>))
     ELSE IF ClassOf(a) = "skipped" \/ ClassOf(b) = "skipped" THEN R(<<"ill-formed-operand">>, <<>>)
     ELSE R(<<B(sameTz), ClassOf(a), ClassOf(b), B(ia = ib)>>,
        (IF ambiguous THEN <<>>          \* CPython compares same-tzinfo values by wall clock (soundness rule 2)
         ELSE IF interZoneFold THEN V("ordering-of-instants", SubSeq(p.pp, 1, 4) = SubSeq(want, 1, 4), want)   \* inter-zone == is False inside a fold
         ELSE V("ordering-of-instants", p.pp = want, want))
        \o V("same-as-native", p.pp = p.nn, p.nn)
        \* pendulum value against the native twin: two different tzinfo objects, so CPython orders by instant
        \o (IF IsNaive(a) THEN V("mixed-same-as-native", p.pn = p.nn, p.nn)
            ELSE V("mixed-ordering-of-instants", SubSeq(p.pn, 1, 4) = SubSeq(want, 1, 4), want))
        \o (IF ambiguous THEN <<>> ELSE V("subtraction", p.sub = I3Diff(ia, ib), I3Diff(ia, ib)))
        \* pendulum - native / native - pendulum: two different tzinfo objects, hence the true elapsed time
        \o (IF IsNaive(a) THEN <<>>
            ELSE V("pendulum-minus-native", p.psubn = I3Diff(ia, ib), I3Diff(ia, ib))
                 \o V("native-minus-pendulum", p.nsubp = I3Diff(ia, ib), I3Diff(ia, ib)))
        \* native subtraction of two values sharing a tzinfo is a wall-clock difference: the twin clause applies
        \* where that and the elapsed time (C05) coincide
        \o (IF IsNaive(a) \/ ZRef(a.z) # ZRef(b.z) \/ OffOf(a) = OffOf(b)
            THEN V("subtraction-same-as-native", p.sub = p.nsub, p.nsub) ELSE <<>>))

\* ---- C15 -----------------------------------------------------------------------------
J_year_prims(e) == LET y == e.a.y IN
   R(<<B(IsLeap(y)), B(IsLongYear(y))>>,
     V("is_leap", e.post.v[1] = B01(IsLeap(y)), B01(IsLeap(y)))
     \o V("is_long_year", e.post.v[2] = B01(IsLongYear(y)), B01(IsLongYear(y)))
     \o V("days_in_year", e.post.v[3] = DaysInYear(y), DaysInYear(y)))
J_year_weekdays(e) == LET y == e.a.y n == DaysInYear(y) IN
   R(<<B(IsLeap(y)), N(Weekday(Ord(y, 1, 1)))>>, ArrClause("week_day", e.post.v, n, LAMBDA k : ExpIsoWeekday(y, k)))
J_year_getters(e) == LET y == e.a.y n == DaysInYear(y) p == e.post IN
   R(<<e.a.cls, B(IsLeap(y)), B(IsLongYear(y))>>
     \o (IF e.a.cls = "DateTimeTz" /\ \E m \in 1..12 : Classify(Z(e.a.tz), <<Ord(y, m, 1), 0>>) = "skipped"
         THEN <<"month-start-skipped", B(e.a.f = 1)>> ELSE <<>>),
     IF p.k = "exc" THEN << <<"unexpected-exception", p.names>> >> ELSE
     ArrClause("day_of_week", p.dow, n, LAMBDA k : ExpDayOfWeek(y, k))
     \o ArrClause("day_of_year", p.doy, n, LAMBDA k : ExpDayOfYear(y, k))
     \o ArrClause("week_of_year", p.woy, n, LAMBDA k : ExpWeekOfYear(y, k))
     \o ArrClause("week_of_month", p.wom, n, LAMBDA k : ExpWeekOfMonth(y, k))
     \o ArrClause("days_in_month", p.dim, n, LAMBDA k : ExpDaysInMonth(y, k))
     \o ArrClause("quarter", p.q, n, LAMBDA k : ExpQuarter(y, k))
     \o ArrClause("is_leap_year", p.leap, n, LAMBDA k : B01(IsLeap(y)))
     \o ArrClause("is_long_year", p.long, n, LAMBDA k : B01(IsLongYear(y))))
\* probe k: instant <<day0 + k - 1, 0>> shifted by ds[k] seconds, rendered at offset offs[k]
J_local_time_scan(e) == LET a == e.a n == Len(a.ds) IN
   R(<<"n", N(n)>>,
     IF e.post.k = "exc" THEN << <<"unexpected-exception", e.post.names>> >> ELSE
     ArrClause("local_time", e.post.v, n,
               LAMBDA k : LocalTime(DSAdd(<<a.day0 + k - 1, 0>>, a.ds[k]), a.offs[k], a.us[k])))

Judge(e) == CASE e.op = "in_tz" -> J_in_tz(e)
              [] e.op = "astimezone" -> J_in_tz(e)
              [] e.op = "from_timestamp" -> J_from_timestamp(e)
              [] e.op = "int_timestamp" -> J_int_timestamp(e)
              [] e.op = "timestamp" -> J_timestamp(e)
              [] e.op = "instance" -> J_instance(e)
              [] e.op = "create" -> J_create(e)
              [] e.op = "set" -> J_set(e)
              [] e.op = "replace" -> J_replace(e)
              [] e.op = "naive_in_tz" -> J_naive_in_tz(e)
              [] e.op = "add_fixed" -> J_add_fixed(e)
              [] e.op = "add_cal" -> J_add_cal(e)
              [] e.op = "add_cal_date" -> J_add_cal_date(e)
              [] e.op = "iv_len" -> J_iv_len(e)
              [] e.op = "rel" -> J_rel(e)
              [] e.op = "iv_arith" -> J_iv_arith(e)
              [] e.op = "iv_comp" -> J_iv_comp(e)
              [] e.op \in {"start_of", "end_of"} -> J_start_end(e)
              [] e.op \in {"next", "previous"} -> J_nav(e)
              [] e.op \in {"first_of", "last_of", "nth_of"} -> J_of(e)
              [] e.op = "dur_new" -> J_dur_new(e)
              [] e.op = "dur_op" -> J_dur_op(e)
              [] e.op = "time_add" -> J_time_add(e)
              [] e.op = "time_diff" -> J_time_diff(e)
              [] e.op \in {"time_closest", "time_farthest"} -> J_time_pick(e)
              [] e.op = "copy" -> J_copy(e)
              [] e.op = "range" -> J_range(e)
              [] e.op = "contains" -> J_contains(e)
              [] e.op = "iso_parse" -> J_iso_parse(e)
              [] e.op = "iso_year_scan" -> J_iso_year_scan(e)
              [] e.op = "iso_roundtrip" -> J_iso_roundtrip(e)
              [] e.op = "dur_parse" -> J_dur_parse(e)
              [] e.op = "iv_parse" -> J_iv_parse(e)
              [] e.op = "parse_any" -> J_parse_any(e)
              [] e.op = "format" -> J_format(e)
              [] e.op = "from_format" -> J_from_format(e)
              [] e.op = "humanize" -> J_humanize(e)
              [] e.op = "locale_tables" -> J_locale_tables(e)
              [] e.op = "in_words" -> J_in_words(e)
              [] e.op = "native_acc" -> J_native_acc(e)
              [] e.op = "native_cmp" -> J_native_cmp(e)
              [] e.op = "year_prims" -> J_year_prims(e)
              [] e.op = "year_weekdays" -> J_year_weekdays(e)
              [] e.op = "year_getters" -> J_year_getters(e)
              [] e.op = "local_time_scan" -> J_local_time_scan(e)
              [] OTHER -> R(<<"unknown-op">>, << <<"unknown-op", e.op>> >>)

Init == l = 1 /\ nbad = 0
Next == /\ l <= Len(T)
        /\ LET r == Judge(T[l])
           IN /\ PrintT(ToJson([id |-> T[l].id, c |-> r.c, v |-> r.v]))
              /\ nbad' = nbad + (IF r.v = <<>> THEN 0 ELSE 1)
        /\ l' = l + 1
Accepted == /\ TLCGet("stats").diameter - 1 = Len(T)
            /\ PrintT(<<"CONSUMED", TLCGet("stats").diameter - 1, Len(T)>>)
=============================================================================
