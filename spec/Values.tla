-------------------------------- MODULE Values --------------------------------
(***************************************************************************)
(* The abstract values of a pendulum program, as the implementation holds  *)
(* them (wall fields + zone + fold; the instant is DERIVED), and the       *)
(* projection target of the harness (harness/proj.py).                     *)
(*                                                                         *)
(*  DateTime  [k |-> "dt",  z |-> ZoneRef, w |-> <<y,mo,d,h,mi,s,us>>, f]   *)
(*  Date      [k |-> "date", w |-> <<y,mo,d>>]                              *)
(*  Time      [k |-> "time", w |-> <<h,mi,s,us>>]                           *)
(*  Duration  [k |-> "dur", y, mo, r |-> Dur3]      r excludes years/months *)
(*  Exception [k |-> "exc", names |-> {class names of the MRO}]             *)
(*  ZoneRef   [n |-> name, fo |-> seconds]   n = "" fixed offset fo,        *)
(*                                           n = "naive" no tzinfo          *)
(* Logged values carry more fields (off, cls, zk, ...); comparisons are     *)
(* always field-wise on the fields a property constrains.                  *)
(*                                                                         *)
(* The zone tables are specification DATA: decoded TZif files (real zones)  *)
(* or the synthetic model zones, read from the file named by PV_ZONES.      *)
(***************************************************************************)
EXTENDS Zones, Json, IOUtils, TLC

ZT == JsonDeserialize(IOEnv.PV_ZONES)
Z(zr) == IF zr.n = "" THEN FixedZone(zr.fo) ELSE ZT[zr.n]
NaiveRef == [n |-> "naive", fo |-> 0]
UtcRef == [n |-> "UTC", fo |-> 0]
FixedRef(o) == [n |-> "", fo |-> o]
IsNaive(v) == v.z.n = "naive"
ZRef(zr) == [n |-> zr.n, fo |-> zr.fo]

DT(zr, w, f) == [k |-> "dt", z |-> ZRef(zr), w |-> w, f |-> f]
WDS(w) == <<Ord(w[1], w[2], w[3]), w[4] * 3600 + w[5] * 60 + w[6]>>     \* wall fields -> DS key
WallDS(ds, us) == WallOf(<<ds[1], ds[2], us>>)

\* the UTC offset the tz database (PEP 495) assigns to the value's wall reading and fold
OffOf(v) == IF IsNaive(v) THEN 0 ELSE Pep(Z(v.z), WDS(v.w), v.f)
\* the instant the value denotes (naive: its own clock)
InstOf(v) == I3AddSec(I3OfWall(v.w), -OffOf(v))
ClassOf(v) == IF IsNaive(v) THEN "unique" ELSE Classify(Z(v.z), WDS(v.w))
\* a value is well-formed iff its wall reading exists in its zone
WellFormed(v) == ValidWall(v.w) /\ ClassOf(v) # "skipped"

\* the value survives a round trip through UTC with identical fields and offset
RoundTrips(v) == IsNaive(v) \/ LET r == Render(Z(v.z), DSOf(InstOf(v))) IN r.w = WDS(v.w) /\ r.off = OffOf(v)

\* rendering of instant i (I3, UTC) in zone zr: the unique well-formed value denoting i
FromInst(zr, i) == LET r == Render(Z(zr), DSOf(i)) IN DT(zr, WallDS(r.w, i[3]), r.f)

\* pendulum's documented construction rule for a wall reading w with fold f
Construct(zr, w, f) == IF zr.n = "naive" THEN DT(zr, w, f)
                       ELSE LET n == Normalize(Z(zr), WDS(w), f) IN DT(zr, WallDS(n.w, w[7]), f)

Exc(names) == [k |-> "exc", names |-> names]
IsExc(v) == v.k = "exc"
InRange(i) == i[1] >= 366 /\ i[1] <= 3651695      \* 0002-01-01 .. 9998-12-31 (soundness rule 3)
=============================================================================
