-------------------------------- MODULE Zones --------------------------------
(***************************************************************************)
(* Time-zone semantics: RFC 8536 transition tables + POSIX TZ footer rule  *)
(* + the PEP 495 fold rule, i.e. exactly what CPython's zoneinfo computes  *)
(* for any table; and pendulum's *documented* normalisation rule.          *)
(*                                                                         *)
(* A zone z is a record                                                    *)
(*   [init, ly, trs : Seq([at : DS (UTC), off, dst]), rule : [has, so, do, *)
(*    sm, sw, sd, st, em, ew, ed, et]]                                      *)
(* `trs` is complete for UTC years <= ly; for later years the rule is      *)
(* evaluated natively (RuleTrs).  A fixed offset is a zone without         *)
(* transitions.  All look-up keys are DS pairs <<day, sec>>.               *)
(***************************************************************************)
EXTENDS TimeScale, FiniteSets

NoRule == [has |-> 0, so |-> 0, do |-> 0, sm |-> 1, sw |-> 1, sd |-> 0, st |-> 0,
           em |-> 1, ew |-> 1, ed |-> 0, et |-> 0]
FixedZone(off) == [init |-> off, idst |-> 0, ly |-> 9999, trs |-> <<>>, rule |-> NoRule]

\* the two transitions the POSIX rule r produces in year y, in UTC, ascending
RuleTrs(r, y) ==
  LET a == [at |-> DSAdd(<<NthWd(y, r.sm, r.sw, r.sd), 0>>, r.st - r.so), off |-> r.do, dst |-> 1]
      b == [at |-> DSAdd(<<NthWd(y, r.em, r.ew, r.ed), 0>>, r.et - r.do), off |-> r.so, dst |-> 0]
  IN IF DSLt(a.at, b.at) THEN <<a, b>> ELSE <<b, a>>

\* effective table for look-ups whose key lies in calendar year yr
EZ(z, yr) == IF z.rule.has = 1 /\ yr > z.ly
             THEN LET g == RuleTrs(z.rule, yr - 1) \o RuleTrs(z.rule, yr) \o RuleTrs(z.rule, yr + 1)
                  IN [init |-> (IF g[1].dst = 1 THEN z.rule.so ELSE z.rule.do),
                      idst |-> (IF g[1].dst = 1 THEN 0 ELSE 1), trs |-> g]
             ELSE z

PrevOff(z, k) == IF k = 1 THEN z.init ELSE z.trs[k - 1].off
\* key of transition k in list f:  f = 2 UTC;  f = 0 / 1 zoneinfo's two wall-clock lists
TrKey(z, f, k) == IF f = 2 THEN z.trs[k].at
                  ELSE DSAdd(z.trs[k].at, IF f = 0 THEN Max(PrevOff(z, k), z.trs[k].off)
                                                   ELSE Min(PrevOff(z, k), z.trs[k].off))
\* number of transitions whose key is <= x  (bisect_right)
RECURSIVE BS(_, _, _, _, _)
BS(z, f, x, lo, hi) == IF lo >= hi THEN lo
                       ELSE LET mid == (lo + hi + 1) \div 2
                            IN IF DSLe(TrKey(z, f, mid), x) THEN BS(z, f, x, mid, hi)
                               ELSE BS(z, f, x, lo, mid - 1)
Idx(z, f, x) == BS(z, f, x, 0, Len(z.trs))
OffAt(z, k) == IF k = 0 THEN z.init ELSE z.trs[k].off
DstAt(z, k) == IF k = 0 THEN z.idst ELSE z.trs[k].dst

\* ---- UTC -> local ------------------------------------------------------------------
OffUtc(z0, i) == LET z == EZ(z0, YearOf(i[1])) IN OffAt(z, Idx(z, 2, i))
DstUtc(z0, i) == LET z == EZ(z0, YearOf(i[1])) IN DstAt(z, Idx(z, 2, i))
\* fold = 1 iff i lies within `shift` seconds after a transition that set the clock back
FoldUtc(z0, i) == LET z == EZ(z0, YearOf(i[1]))  k == Idx(z, 2, i)
                  IN IF k = 0 THEN 0
                     ELSE LET shift == PrevOff(z, k) - z.trs[k].off
                          IN IF shift > 0 /\ DSLt(i, DSAdd(z.trs[k].at, shift)) THEN 1 ELSE 0
\* rendering of a UTC instant: local wall reading (DS), offset, fold
Render(z, i) == [w |-> DSAdd(i, OffUtc(z, i)), off |-> OffUtc(z, i), f |-> FoldUtc(z, i)]

\* ---- local -> UTC (PEP 495) --------------------------------------------------------
Pep(z0, w, f) == LET z == EZ(z0, YearOf(w[1])) IN OffAt(z, Idx(z, f, w))
PepDst(z0, w, f) == LET z == EZ(z0, YearOf(w[1])) IN DstAt(z, Idx(z, f, w))
Resolve(z, w, f) == DSAdd(w, -Pep(z, w, f))

\* ---- declarative second formulation -------------------------------------------------
\* the UTC instants whose rendering is the wall reading w; candidate offsets = all offsets of z
Offsets(z0, yr) == LET z == EZ(z0, yr) IN {z.init} \cup {z.trs[k].off : k \in 1..Len(z.trs)}
Occ(z, w) == {i \in {DSAdd(w, -o) : o \in Offsets(z, YearOf(w[1]))} : DSAdd(i, OffUtc(z, i)) = w}
ClassDecl(z, w) == LET n == Cardinality(Occ(z, w))
                   IN IF n = 0 THEN "skipped" ELSE IF n = 1 THEN "unique" ELSE "repeated"

\* PEP 495 classification (what the code can observe through utcoffset with both folds)
Classify(z, w) == LET a == Pep(z, w, 0)  b == Pep(z, w, 1)
                  IN IF b > a THEN "skipped" ELSE IF a > b THEN "repeated" ELSE "unique"
GapLen(z, w) == Pep(z, w, 1) - Pep(z, w, 0)

\* ---- pendulum's documented normalisation of a wall reading -------------------------
\* unique: w itself; repeated: fold selects the occurrence (1 = later);
\* skipped: moved forward by the gap for fold = 1, backward for fold = 0
Normalize(z, w, f) == LET a == Pep(z, w, 0)  b == Pep(z, w, 1)
                      IN IF b > a THEN (IF f = 1 THEN [w |-> DSAdd(w, b - a), off |-> b]
                                                  ELSE [w |-> DSAdd(w, a - b), off |-> a])
                         ELSE [w |-> w, off |-> IF f = 1 THEN b ELSE a]
=============================================================================
