#!/usr/bin/env python3
"""run the pinned suite (guard off) and compare with BASELINE.json's stable_pass list"""
import json
import os
import subprocess
import sys
import xml.etree.ElementTree as ET

repo = sys.argv[1] if len(sys.argv) > 1 else "/repo"
out = "/tmp/baseline_%d.xml" % os.getpid()
env = dict(os.environ)
env.pop("PENDULUM_VERIF_TRACE", None)
env["PYTHONPATH"] = repo + "/src"
subprocess.run(["/venv/bin/python", "-m", "pytest", "-ra", "-q", "-p", "no:cacheprovider", "--timeout=900",
                "--continue-on-collection-errors", "--junitxml=" + out], cwd=repo, env=env,
               stdout=subprocess.DEVNULL, stderr=subprocess.DEVNULL)
passed = set()
for tc in ET.parse(out).getroot().iter("testcase"):
    if not any(ch.tag in ("failure", "error", "skipped") for ch in tc):
        passed.add(tc.get("classname") + "::" + tc.get("name"))
os.remove(out)
base = set(json.load(open("/root/.vp/BASELINE.json"))["stable_pass"])
missing = sorted(base - passed)
print("stable_pass", len(base), "passed now", len(passed), "missing", len(missing))
for m in missing[:20]:
    print("  MISSING", m)
sys.exit(1 if missing else 0)
