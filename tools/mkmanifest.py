#!/usr/bin/env python3
"""Regenerates /verif/MANIFEST.json from the table below (kept valid at all times)."""
import json
import os

V = os.path.dirname(os.path.dirname(os.path.abspath(__file__)))
props = [json.loads(l) for l in open(os.path.join(V, "properties.jsonl"))]

# property id -> (technique, level text, level note, design ref)
CLAIMED = {
 "C01": ("TLA+ zone semantics (Zones.tla) model-checked on synthetic zones; TLC trace validation of real calls at every tz-database transition",
         "TLC model-checks the zone semantics (two independent formulations agree on every transition geometry) and then judges every recorded in_timezone/astimezone/from_timestamp/instance/timestamp call of the real library - at every UTC-offset transition of every shipped zone, chains A->B->C on threaded objects, all tzinfo source kinds - against the TLA+ reference result; conformance of the code to the spec is by trace validation, so it covers what was executed, not all inputs",
         "TLC, CPython zoneinfo + TZif files as the tz database, harness projection and TZif decoder (cross-checked against zoneinfo at setup)", "7 C01"),
 "C02": ("TLA+ normalisation rule (Zones.tla: Classify/Normalize) model-checked on synthetic zones; TLC trace validation of every construction entry point at every gap/overlap of the tz database",
         "TLC model-checks that the documented normalisation always yields an existing wall time and that PEP 495 classification equals the declarative count of occurrences; every recorded datetime()/create/convert/Timezone.datetime/local/parse(tz=)/set/on/at/replace/in_timezone(naive) call at the boundaries and inside of the gaps and overlaps enumerated from the tz data (x fold x raise_on_unknown_times) is judged by TLC against Create/Construct",
         "TLC, CPython zoneinfo + TZif files as the tz database, harness projection and TZif decoder", "7 C02"),
 "C03": ("TLA+ exact instant arithmetic (TimeScale.tla, OpsTz.AddFixed); TLC trace validation of add/subtract/+-timedelta around every transition",
         "every recorded add()/subtract()/+ timedelta/- timedelta/timedelta + dt call with only fixed-length units - sources on either side of and inside every transition (both folds), amounts straddling it, mixed-sign components, random amounts up to 1e9 s, naive values, subtract() undoing add() on the threaded object - is judged by TLC against FromInst(zone, Inst(src) + d) computed in exact limb arithmetic",
         "TLC, tz database as above, harness projection", "7 C03"),
 "C15": ("TLA+ proleptic Gregorian calendar (Calendar.tla) model-checked over all dates (closed forms vs successor-day induction, Alg* refinement); TLC trace validation of primitives and getters per year/date in both back-ends",
         "TLC exhaustively checks the calendar reference (YMD/Ord/IsoCal/long years/month arithmetic) against the successor-day induction and the implementation-shaped helper algorithms against the reference (a full 400-year cycle plus both ends of the range in the quick tier, all 3,652,059 dates in the thorough tier); every recorded is_leap/is_long_year/days_in_year (all 9999 years), week_day (every date), Date/DateTime getters and local_time (every day boundary) result of both back-ends is judged by TLC against the reference (getters and local_time over a seed-rotated share of the years in the quick tier, all in the thorough tier)",
         "TLC, harness projection; the standard library's calendar is represented by Calendar.tla, itself validated by the induction", "7 C15"),
 "C04": ("TLA+ wall-clock calendar arithmetic (OpsArith.tla: AddMonths clamping, then days/time on the wall clock, default-fold normalisation); TLC trace validation over month shapes and tz-database anomalies",
         "every recorded add()/subtract()/+ Duration/- Duration/+ (-Duration)/Duration + dt call on DateTime and Date - every month length, leap day and year boundary x month shifts beyond +-12 and day shifts beyond a month, targets aimed into the gaps and overlaps enumerated from the tz data with sources of both folds, random mixed-sign components - is judged by TLC against AddCal / AddCalDate; the three operator paths are each compared with the SPEC, not with each other",
         "TLC, tz database as above, harness projection; Duration operands restricted to canonical signatures (soundness rule 2)", "7 C04"),
 "C05": ("TLA+ exact elapsed time between derived instants (OpsDiff.Elapsed over Zones/TimeScale); TLC trace validation of interval lengths for endpoint pairs around every transition",
         "every recorded interval()/Interval/b - a/diff/abs/native-subtraction call - endpoint pairs on either side of and inside every tz-database transition, both folds, same tzinfo object / same name other object / different zones / fixed offsets, Date and naive pairs, random pairs over years 2..9998 - is judged by TLC: native timedelta slots against the exact Dur3 difference of the two instants (64 us tolerance beyond 2^33 s), in_seconds/in_minutes/in_hours as truncation toward zero, magnitude for the absolute entry points",
         "TLC, tz database as above, harness projection (timedelta slots read through the base-class descriptors)", "7 C05"),
 "C06": ("TLA+ decomposition predicate (OpsDiff.ValidDecomposition = canonical ranges and AddCal(start, comps) = end, rebuilt with the SPEC's AddCal) + AlgPD transcription of precise_diff model-checked for refinement per branch (MC_Diff); TLC trace validation of Interval components and of both helper back-ends",
         "TLC checks over all date pairs of a window of years in which branches precise_diff's algorithm refines the predicate (all but the 'full month' branch); every recorded Interval (month/day x month/day x leap pattern x borrow product, zone pairs around transitions, reversed and random pairs) is judged by TLC: ranges, rebuild of the end in the common zone or in UTC, in_months, a + (b - a), add(components), each helper back-end separately and their equality; the property's premise is evaluated by the spec",
         "TLC, tz database as above, harness projection; spans beyond 2^33 s are outside the float-exact range of Interval and not judged", "7 C06"),
 "C12": ("TLA+ reference = first/last instant of the calendar unit (OpsModifiers.StartOfRef/EndOfRef), model-checked against the property's predicate on every synthetic zone geometry (MC_Modifiers); TLC trace validation of start_of/end_of on the days of every tz-database anomaly",
         "TLC checks that the reference delimits the unit (same unit, start <= x <= end, neighbouring microseconds outside, idempotent, zone kept) for all units, the 7 consistent week configurations and all synthetic geometries; every recorded start_of/end_of call - values on and around the days of every gap/overlap of the tz data obtained raw with either fold or by conversion (history independence), idempotence on the threaded result, UTC/naive/fixed-offset values and Dates over the calendar - is judged by TLC against the reference",
         "TLC, tz database as above, harness projection; classes of inputs where pendulum is known to be wrong are listed in known_findings.json by spec-computed labels", "7 C12"),
 "C16": ("TLA+ weekday navigation (OpsModifiers: NextOrd/PrevOrd/FirstOfOrd/LastOfOrd/NthOfOrd over Calendar.tla, model-checked in MC_Calendar); TLC trace validation over all month shapes and tz-database anomaly days",
         "every recorded next/previous/first_of/last_of/nth_of call - all 28 month shapes x quarters x leap years x 7 weekdays (and none) x n up to 54 x 3 units for Date, UTC and naive DateTime; zone DateTimes on, around and far from days with a skipped or repeated midnight, both folds, with and without keep_time - is judged by TLC: target date, 00:00 (or kept time) normalised by the construction rules, PendulumException exactly when the unit holds fewer than n",
         "TLC, tz database as above, harness projection", "7 C16"),
 "C09": ("TLA+ Duration normalisation in exact limb arithmetic (OpsDuration: D3OfArgs, RestOf, Breakdown), laws model-checked on a boundary grid (MC_Duration); TLC trace validation of constructed Durations and their rebuilds",
         "TLC checks the limb arithmetic laws (ring laws, exact division, canonical breakdown: ranges, common sign, exact sum) exhaustively on a boundary grid; every recorded Duration(...)/duration(...) - pairs of components at boundary values incl. sign-cancelling ones, random mixed-sign tuples, whole-second totals up to 1e9 days - is judged by TLC: native timedelta slots, years/months as given, the six canonical components, total_*()/in_*() against total_seconds(), and the rebuild from its own components",
         "TLC, harness projection (base-class timedelta descriptors; floats reduced to the nearest microsecond); inputs beyond the float-exact range (>= 2^33 s with a sub-second part) are not judged", "7 C09"),
 "C10": ("TLA+ timedelta arithmetic on Dur3 limbs (OpsDuration: add/sub/neg/abs, int and dyadic-float scaling with round-half-even, floor division, mod, divmod), laws model-checked (MC_Duration); TLC trace validation of every operator x operand-type pairing",
         "every recorded -d, abs(d), d+x, x+d, d-x, x-d, d*n, n*d, d*f, d/n, d/f, d//n, d//x, d%x, divmod(d,x), d/x, comparisons and hashes - x a Duration or a plain timedelta on either side, either sign, ties of round-half-even - is judged by TLC for value and, where the property demands it, result type; years/months under negation and integer scaling",
         "TLC, harness projection; scalars |n| <= 2000, floats k/2^j; duration-by-duration division only where both operands fit the limb bounds (below 2000 s, or whole seconds below 24000 days)", "7 C10"),
 "C20": ("TLA+ time-of-day arithmetic modulo 24 h (OpsDuration: TimeAdd/TimeDiff), modular laws model-checked (MC_Duration); TLC trace validation of Time.add/subtract/+-timedelta/diff/closest/farthest",
         "every recorded Time.add/subtract/+ timedelta/- timedelta (boundary times x amounts spanning several days of either sign, subtract undoing add on the threaded object, timedeltas with a day component must raise TypeError), diff/t2 - t1/native operands over all pairs of a boundary set, closest/farthest is judged by TLC to the microsecond",
         "TLC, harness projection; negative sub-day timedeltas (whose normal form has days = -1) are not judged: 'a day component' has two readings there", "7 C20"),
 "C14": ("TLA+: pickle/copy/deepcopy are stuttering steps of the Session state machine on the abstraction (Trace.J_copy: same class, fields, derived instant and offset, duration components, interval end-points and flag, zone); TLC trace validation over values that use the fragile hidden state",
         "every recorded pickle (protocols 0..5), copy.copy and copy.deepcopy of DateTimes on ambiguous wall times with fold 0 and 1 in every zone that has overlaps, naive/UTC/fixed-offset DateTimes, Dates, Times, Durations with every subset of components and either sign, Intervals (forward, inverted, absolute; DateTime and Date end-points, end-points on ambiguous times), Timezone and FixedTimezone objects is judged by TLC as a stuttering step on the projected abstraction, plus == where the property demands it",
         "TLC, tz database as above (the instant of a copy is derived by the spec from its wall fields and fold), harness projection", "7 C14"),
 "C19": ("TLA+ state machine of the range() generator loop (MC_Range: no drift w.r.t. the closed form, inside, strictly monotone as an action property, termination under weak fairness) + closed form Kth (OpsRange); TLC trace validation of recorded ranges in lock-step with the closed form",
         "TLC model-checks the generator loop on small intervals over the synthetic zones (starts on days 29-31 with month/year steps, DST days, inverted and absolute intervals) for drift-freedom, containment, strict monotonicity and termination (liveness, no state constraint); every recorded Interval.range()/iteration - month-end starts x month/year steps 1..12, ranges across transitions of every zone x 8 units, forward/inverted/absolute, Date/naive/UTC, up to 10^4 steps - is judged by TLC: sampled values (first, last, middle) against the closed form computed from the start, the stopping point (last not beyond, next beyond), end yielded iff reachable, containment; `x in interval` against start <= x <= end",
         "TLC, tz database as above, harness projection; no verdict where an end-point or the stopping point sits on an ambiguous wall time of a shared tzinfo (CPython orders those by wall clock) or the range crosses a wholly skipped day (MC_Range shows monotonicity and C04 are incompatible there)", "7 C19"),
 "C07": ("TLA+ character-level ISO 8601 grammar: generator (IsoForms.RenderForm/DenoteForm) and recogniser (IsoText.Recognise) model-checked for agreement, renderers inverted by the recogniser (MC_IsoText); TLC trace validation of parse() on generated forms, whole years of dates in six forms, and renderer round trips, both parser back-ends",
         "TLC checks generator/recogniser agreement over boundary forms incl. impossible dates, weeks and ordinals; every recorded parse - {calendar, ordinal, week} x {basic, extended} x {date only, T/space + hh, hh:mm, hh:mm:ss, fractions of 1..9 digits after '.' or ','} x {none, Z, +-hh, +-hh:mm} x exact x tz over boundary field values, through parse() and through each low-level parser - is judged by TLC against the denoted value (the spec renders the text from the structured form itself); whole years of dates in the six date forms per back-end (seed-rotated 1/40 of the years 1583..9999 in the quick tier, all in the thorough tier); parse() inverting isoformat/str/to_iso8601/rfc3339/atom/w3c",
         "TLC, harness projection; the texts of the year scans are rendered by the harness with the standard library (three per scan are re-rendered by the spec)", "7 C07"),
 "C13": ("TLA+ ISO 8601 duration grammar with arbitrary-length numbers (IsoText.RecDuration over BigNat limbs, exact rational fraction rounded to the microsecond) and interval forms; TLC trace validation of parsed durations/intervals in both back-ends",
         "every recorded parse of a duration string - all component subsets x values up to 10+ digits x fraction strings of 1..9 digits on each admissible unit x '.'/',' , the ill-formed classes the property names, numbers too large to represent - through parse() and each low-level parser is judged by TLC: years/months as given, remaining length equal to the exact value, rejection where demanded; the three interval forms against Add/Subtract of the spec",
         "TLC, harness projection; fractions whose exact value is a half-microsecond tie are not judged", "7 C13"),
 "C17": ("TLA+: outcome predicate of parse() (a pendulum value or ValueError), recogniser Recognise/RecDuration as the reference for accepted strings, strict-mode alphabet predicate; TLC trace validation over character edits of valid forms, truncations, concatenations and random (incl. non-ASCII) strings x options, both back-ends",
         "every recorded parse() outcome - seeds of all C07/C13 forms, their single character edits (sampled in the quick tier, all in the thorough tier), sampled double edits, truncations, concatenations, hand-written and random strings incl. non-ASCII digits, x {exact, strict, tz, day_first, year_first} - is judged by TLC: totality (value of one of the five types or ValueError) of parse() and of each low-level parser, equality of the two parsers where both accept, strict rejection of text with characters outside the ISO alphabet, and - for every string the spec's recogniser accepts - equality with the denoted value",
         "TLC, harness projection; the dateutil fallback (strict=False) is constrained by totality only", "7 C17"),
 "C08": ("TLA+ token table (FormatTokens.TokText: every documented token as a function of the abstract value, over Calendar/Zones/BigNat), named-format compositions and from_format inversion rule; TLC trace validation of format()/to_*_string()/from_format(), both back-ends, all locales",
         "every recorded format() - each token x boundary values (hour 0/12/23, fraction widths, negative and :30/:45 offsets, LMT, three-part zone names, day-of-year and weekday boundaries, timestamps before and after 1970), random token sequences with literal separators and [escapes], the named to_*_string() helpers (whose documented composition is a table in the spec), localized month/day names and ordinals in all locales x 12 months x 7 weekdays - is judged by TLC character by character; from_format(format(x)) for complete formats, localized names in every locale, formats without a date (now), non-matching strings (ValueError)",
         "TLC; the locale tables are specification data exported from the working tree (the spec decides which entry must appear, not what it spells); harness projection. This is table-driven oracle checking, weaker than state exploration", "7 C08"),
 "C18": ("TLA+ admissible (unit, count) set, direction, template key path and placeholder substitution (FormatTokens.HumanCandidates / InWordsR over the exported locale tables); TLC trace validation of format_diff/diff_for_humans/in_words over all locales x units x plural classes x flags",
         "every recorded format_diff / diff_for_humans (explicit reference instants and a patched now) / in_words - all shipped locales x 7 units x counts covering every CLDR plural class (0..1000 exhaustively in the thorough tier) x {now, other} x {past, future} x {absolute}, the round-up thresholds, random instants - is judged by TLC: no exception, non-empty, no placeholder left, and the phrase is the locale's own template for an admissible (unit, count) in the right direction",
         "TLC; locale tables and CLDR plural categories are data tabulated from the working tree; harness projection. The count is constrained to the largest non-zero unit or its round-up (within one unit of the elapsed time), not to pendulum's particular thresholds", "7 C18"),
 "C11": ("TLA+ definitions of the standard-library accessors (isoformat/str via IsoText, toordinal/weekday/isoweekday/isocalendar/timetuple/utctimetuple via Calendar, utcoffset/tzname via Zones) and ordering/subtraction by derived instants; TLC trace validation of every accessor and operator against the spec and against the native twin",
         "every recorded accessor bundle of a DateTime / Date / Time - values on both sides of and inside every zone's transitions with both folds, naive, UTC, fixed offsets, random - is judged by TLC against the spec's definition of the accessor and, for every accessor (incl. strftime, ctime, dst, timestamp, timetz), by equality with the native twin (same fields, zoneinfo tzinfo of the same key, same fold), == and hash with the twin for unambiguous values, and the pendulum type of everything date/time/datetime-like a method returns; pairs (same tzinfo object, other zones, fixed offsets) for the six comparisons and subtraction: ordering of instants, agreement with the native pair",
         "TLC, tz database as above, harness projection; ordering clauses are not applied to same-tzinfo pairs on ambiguous wall times, nor the twin clause of subtraction to same-zone pairs with different offsets (CPython compares / subtracts those by wall clock)", "7 C11"),
}
NOT_YET = "check not built yet in this round (planned: see DESIGN.md section 7)"

checks = []
na = []
for p in props:
    i = p["id"]
    if i in CLAIMED:
        tech, text, note, ref = CLAIMED[i]
        checks.append({
            "property_id": i,
            "quick_cmd": "bin/pv check %s --tier quick" % i,
            "thorough_cmd": "bin/pv check %s --tier thorough" % i,
            "evidence_file": "/verif/evidence/%s.json" % i,
            "replay_cmd_template": "bin/pv replay %s {path}" % i,
            "engine": "pv",
            "level_claimed": {"category": "model_checking", "text": text, "design_ref": "DESIGN.md section " + ref},
            "level_note": note,
            "technique": tech,
        })
    else:
        na.append({"property_id": i, "reason": NOT_YET})

m = {
 "version": 1,
 "setup_cmd": "bin/pv setup",
 "hooks": {"guard": "PENDULUM_VERIF_TRACE",
           "enable": "no source hook in /repo: the library is sequential and every abstract state is readable from Python; the guard variable is read only by the external pytest tracer plugin under /verif/harness (checks import pendulum from /repo/src and load the Rust helpers rebuilt from /repo/rust)",
           "baseline_off_cmd": "cd /repo && /venv/bin/python -m pytest -ra -q -p no:cacheprovider --timeout=900 --continue-on-collection-errors",
           "source_commits": [], "add_only": True},
 "engines": [{"name": "pv", "path": "/verif/bin/pv", "serves_properties": sorted(CLAIMED),
              "kind_free_text": "TLA+ specification (spec/*.tla) checked with TLC; trace validation of recorded real executions (Trace.tla) and replay of TLC-generated behaviours"}],
 "checks": checks,
 "not_applicable": na,
 "notes": "All verdicts are computed by TLC from the TLA+ modules under /verif/spec; Python only drives the real library, projects values and parses TLC's verdicts. Exit 2 = machinery failure.",
}
json.dump(m, open(os.path.join(V, "MANIFEST.json"), "w"), indent=1)
print("claimed", sorted(CLAIMED), "not yet", [x["property_id"] for x in na])
