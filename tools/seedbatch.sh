#!/bin/sh
# tools/seedbatch.sh <root> <PAR> : for every <root>/<ID>/<x>/patch.diff confirm the change (seedconfirm.sh) and run the
# owning check against it (seedtest.sh); results in <root>/<ID>/<x>/confirm.txt and result.txt; summary on stdout.
ROOT="$1"; PAR="${2:-3}"
ls -d $ROOT/C*/[abc] 2>/dev/null | while read d; do [ -f "$d/patch.diff" ] && echo "$d"; done > /tmp/seedbatch.list
cat /tmp/seedbatch.list | PV_JOBS=6 xargs -P $PAR -I{} sh -c 'd={}; id=$(basename $(dirname $d)); sh /verif/tools/seedconfirm.sh $d > $d/confirm.txt 2>&1; sh /verif/tools/seedtest.sh $d $id > $d/result.txt 2>&1'
for d in $(cat /tmp/seedbatch.list); do
  id=$(basename $(dirname $d)); x=$(basename $d)
  echo "$id-$x | $(cut -c1-70 $d/confirm.txt | head -1) | VIOL=$(grep -c '^ *[0-9]* VIOLATION' $d/result.txt) EXT=$(grep -c 'SPEC-EXTENSION' $d/result.txt) $(grep 'events validated' $d/result.txt | sed 's/.*known-finding events, //' | cut -c1-40)"
done
rm -f /tmp/seedbatch.list
