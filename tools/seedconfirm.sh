#!/bin/sh
# tools/seedconfirm.sh <seed dir> : confirm a seeded change in a scratch copy: demo passes clean, fails patched,
# pinned suite still passes with the patch.  Prints one line.
SD="$1"
T=$(mktemp -d /tmp/mconf.XXXXXX)
git -C /repo archive HEAD | tar -x -C "$T"; cp /repo/src/pendulum/_pendulum*.so "$T/src/pendulum/" 2>/dev/null
cd "$T" && git init -q . >/dev/null 2>&1
PYTHONPATH="$T/src" timeout 900 /venv/bin/python "$SD/demo.py" >/dev/null 2>&1; CLEAN=$?
git apply "$SD/patch.diff" || { echo "$(basename $SD): PATCH DOES NOT APPLY"; rm -rf "$T"; exit 3; }
PYTHONPATH="$T/src" timeout 900 /venv/bin/python "$SD/demo.py" >/dev/null 2>&1; PATCHED=$?
SUITE=$(python3 /verif/tools/baseline_check.py "$T" | head -1)
echo "$(basename $SD): demo clean exit=$CLEAN patched exit=$PATCHED suite: $SUITE"
cd /; rm -rf "$T"
