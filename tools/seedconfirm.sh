#!/bin/sh
# tools/seedconfirm.sh <seed dir> : confirm a seeded change in a scratch copy: demo passes clean, fails patched,
# pinned suite still passes with the patch.  A change under rust/ gets the extension rebuilt (clean and patched).
# Prints one line.
SD="$1"
T=$(mktemp -d /tmp/mconf.XXXXXX)
git -C /repo archive HEAD | tar -x -C "$T"
# the compiled extension built from /repo's CURRENT Rust sources (the prebuilt copy lying in /repo/src predates the fixes)
SO=$(cd /verif && /venv/bin/python -c "from harness import env; print(env.build_rust())")
cp "$SO" "$T/src/pendulum/_pendulum.cpython-312-x86_64-linux-gnu.so"
cd "$T" && git init -q . >/dev/null 2>&1
RUST=0; grep -q '^+++ b/rust/' "$SD/patch.diff" && RUST=1
build() { ( cd "$T/rust" && find . -name '*.rs' -exec touch {} + && PYO3_PYTHON=/venv/bin/python cargo build --release --offline >/dev/null 2>&1 \
            && cp target/release/lib_pendulum.so ../src/pendulum/_pendulum.cpython-312-x86_64-linux-gnu.so ); }
[ $RUST = 1 ] && build
PYTHONPATH="$T/src" timeout 900 /venv/bin/python "$SD/demo.py" >/dev/null 2>&1; CLEAN=$?
git apply "$SD/patch.diff" || { echo "$(basename $SD): PATCH DOES NOT APPLY"; rm -rf "$T"; exit 3; }
[ $RUST = 1 ] && build
PYTHONPATH="$T/src" timeout 900 /venv/bin/python "$SD/demo.py" >/dev/null 2>&1; PATCHED=$?
SUITE=$(python3 /verif/tools/baseline_check.py "$T" | head -1)
echo "$(basename $SD): demo clean exit=$CLEAN patched exit=$PATCHED rust=$RUST suite: $SUITE"
cd /; rm -rf "$T"
