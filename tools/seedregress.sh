#!/bin/sh
# tools/seedregress.sh [PAR] [glob] : run the owning check against every stored seeded change (/verif/seeded/<ID>-<n>);
# one line per seed: number of VIOLATION classes, extension divergences, summary.  Results in build/seedregress/.
PAR="${1:-3}"; GLOB="${2:-*}"
OUT=/verif/build/seedregress; mkdir -p $OUT
ls -d /verif/seeded/$GLOB | PV_JOBS=6 xargs -P $PAR -I{} sh -c 'd={}; n=$(basename $d); id=${n%%-*}; sh /verif/tools/seedtest.sh $d $id > '$OUT'/$n.txt 2>&1'
for d in $(ls -d /verif/seeded/$GLOB); do
  n=$(basename $d)
  echo "$n VIOL=$(grep -c "^ *[0-9]* VIOLATION" $OUT/$n.txt) EXT=$(grep -c "SPEC-EXTENSION" $OUT/$n.txt) $(grep -E "events validated|DOES NOT APPLY|MACHINERY" $OUT/$n.txt | sed 's/.*known-finding events, //' | cut -c1-60)"
done
