#!/bin/sh
# tools/seedsquick.sh <seed>... : every quick check under other seeds on the unchanged tree; one line per (seed, check)
bin/pv setup >/dev/null 2>&1
for sd in "$@"; do
  for id in C01 C02 C03 C04 C05 C06 C07 C08 C09 C10 C11 C12 C13 C14 C15 C16 C17 C18 C19 C20; do
    s=$(date +%s)
    out=$(VERIF_SEED=$sd PV_NO_EVIDENCE=1 bin/pv check $id 2>&1); rc=$?
    echo "seed=$sd $id rc=$rc wall=$(( $(date +%s) - s ))s $(echo "$out" | grep -E "events validated|MACHINERY" | sed 's/.*TLC states, //' | cut -c1-120)"
    if [ $rc -ne 0 ]; then echo "$out" | grep -A2 "^VIOLATION" | cut -c1-1200 | head -12; fi
  done
done
