#!/bin/sh
# run every quick check under several VERIF_SEED values; print one line per (check, seed)
bin/pv setup >/dev/null 2>&1
for sd in "$@"; do
  for id in C01 C02 C03 C04 C05 C06 C07 C08 C09 C10 C11 C12 C13 C14 C15 C16 C17 C18 C19 C20; do
    out=$(VERIF_SEED=$sd PV_NO_EVIDENCE=1 bin/pv check $id --tier quick 2>&1); rc=$?
    echo "seed=$sd $id rc=$rc $(echo "$out" | grep -E "events validated|MACHINERY" | cut -c1-160)"
    if [ $rc -ne 0 ]; then echo "$out" | grep -A2 "^VIOLATION" | cut -c1-700 | head -12; fi
  done
done
