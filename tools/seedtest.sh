#!/bin/sh
# tools/seedtest.sh <seed dir with patch.diff> <PROPERTY ID...> : run the named checks against a scratch copy of
# /repo (HEAD) with the patch applied.  The scratch copy lives under /tmp and is removed afterwards.
set -e
SD="$1"; shift
T=$(mktemp -d /tmp/mrepo.XXXXXX)
git -C /repo archive HEAD | tar -x -C "$T"
( cd "$T" && git init -q . >/dev/null 2>&1 && git apply "$SD/patch.diff" ) || { echo "PATCH DOES NOT APPLY"; rm -rf "$T"; exit 3; }
for P in "$@"; do
  echo "== $P on $(basename $SD)"
  VERIF_REPO="$T" PV_NO_EVIDENCE=1 /verif/bin/pv check "$P" --tier quick 2>&1 | grep -E "^VIOLATION|MACHINERY|events validated|^SPEC-EXTENSION" | cut -c1-200 | sed "s#replay=.*##" | sort | uniq -c | sort -rn | head -4
done
rm -rf "$T"
