#!/bin/sh
# run every thorough check once; one line per check
bin/pv setup >/dev/null 2>&1
for id in "$@"; do
  s=$(date +%s)
  out=$(VERIF_SEED=5 PV_NO_EVIDENCE=1 bin/pv check $id --tier thorough 2>&1); rc=$?
  echo "thorough $id rc=$rc wall=$(( $(date +%s) - s ))s $(echo "$out" | grep -E "events validated|MACHINERY" | cut -c1-200)"
  if [ $rc -ne 0 ]; then echo "$out" | grep -A2 "^VIOLATION" | cut -c1-600 | head -12; fi
done
