#!/usr/bin/env python3
"""summarise the violation groups of the last run of a property: tools/vsum.py C05 [tier]"""
import collections
import glob
import json
import sys

prop = sys.argv[1]
tier = sys.argv[2] if len(sys.argv) > 2 else "quick"
agg = collections.OrderedDict()
for p in sorted(glob.glob("/verif/build/replay/%s-%s-*.json" % (prop, tier)), key=lambda s: int(s.split("-")[-1][:-5])):
    d = json.load(open(p))
    c = d["class"]
    key = (c[0], tuple(c[1]), tuple(c[2]))
    a = agg.setdefault(key, {"n": 0, "bk": set(), "p": p})
    a["n"] += d["count"]
    a["bk"].add(c[3])
for k, a in agg.items():
    print(a["n"], sorted(a["bk"]), k[0], list(k[1]), list(k[2]), a["p"].split("/")[-1])
