#!/usr/bin/env python3
"""group the violations of the last run by (op, clause set, backend set); show one example each"""
import collections, glob, json, sys
prop = sys.argv[1]; tier = sys.argv[2] if len(sys.argv) > 2 else "quick"
agg = collections.OrderedDict()
for p in glob.glob("/verif/build/replay/%s-%s-*.json" % (prop, tier)):
    d = json.load(open(p)); c = d["class"]
    key = (c[0], tuple(c[1]))
    a = agg.setdefault(key, {"n": 0, "bk": set(), "ex": [], "labs": collections.Counter()})
    a["n"] += d["count"]; a["bk"].add(c[3]); a["labs"][tuple(c[2])] += d["count"]
    if len(a["ex"]) < 3: a["ex"].append(d["events"][0])
def txt(e):
    t = e.get("a", {}).get("text")
    return "".join(chr(c) for c in t) if t else ""
for k, a in sorted(agg.items(), key=lambda kv: -kv[1]["n"]):
    print(a["n"], sorted(a["bk"]), k[0], list(k[1]), "| label sets:", len(a["labs"]))
    for e in a["ex"][:int(sys.argv[3]) if len(sys.argv) > 3 else 2]:
        print("     ex:", repr(txt(e)), json.dumps(e["verdict"]["v"])[:300])
